#!/bin/bash
# usage: seed_confirm.sh <Cxx> <A|B> [patchfile]
# Confirms a seeded breaking change in the scratch worktree /tmp/seed/wt-<Cxx> (never in /repo):
#  demo passes without the change, fails with it; the existing suite shows no new failures with it.
# On success stores /verif/seeded/<Cxx>-<X>/{patch.diff,demo.*,meta.json}.
id="$1"; x="$2"; round="${SEED_ROUND:-1}"
if [ "$round" = 8 ]; then out=/tmp/seed/out8-$id; elif [ "$round" = 7 ]; then out=/tmp/seed/out7-$id; elif [ "$round" = 6 ]; then out=/tmp/seed/out6-$id; elif [ "$round" = 5 ]; then out=/tmp/seed/out5-$id; elif [ "$round" = 4 ]; then out=/tmp/seed/out4-$id; elif [ "$round" = 3 ]; then out=/tmp/seed/out3-$id; elif [ "$round" = 2 ]; then out=/tmp/seed/out2-$id; else out=/tmp/seed/out-$id; fi
wt=/tmp/seed/wt-$id
# round-2 changes are stored as variants C and D, round-3 changes as E and F
variant="$x"; if [ "$round" = 2 ]; then [ "$x" = A ] && variant=C; [ "$x" = B ] && variant=D; fi
if [ "$round" = 3 ]; then [ "$x" = A ] && variant=E; [ "$x" = B ] && variant=F; fi
if [ "$round" = 4 ]; then [ "$x" = A ] && variant=G; [ "$x" = B ] && variant=H; fi
if [ "$round" = 5 ]; then [ "$x" = A ] && variant=I; [ "$x" = B ] && variant=J; fi
if [ "$round" = 6 ]; then [ "$x" = A ] && variant=K; [ "$x" = B ] && variant=L; fi
if [ "$round" = 7 ]; then [ "$x" = A ] && variant=M; [ "$x" = B ] && variant=N; fi
if [ "$round" = 8 ]; then [ "$x" = A ] && variant=O; [ "$x" = B ] && variant=P; fi
patch="${3:-$out/$x.patch.diff}"
head=$(git -C /repo rev-parse HEAD)
log=/tmp/seed/confirm-$id-$x.log; : > "$log"
cd "$wt" || exit 2
git checkout -q -- . ; git clean -qfd -e target >/dev/null 2>&1
git checkout -q --detach "$head" || exit 2
demo="${SEED_DEMO:-$(ls $out/$x.demo.* 2>/dev/null | head -1)}"; [ -z "$SEED_DEMO" ] && [ -f "$out/$x.demo.sh" ] && demo="$out/$x.demo.sh"
[ -z "$demo" ] && { echo "$id-$x: no demo"; exit 2; }
# safety: demos run as root; refuse scripts that delete/move/cd unless confined to the out dir's scratch
if [ "${demo##*.}" != rs ] && [ -z "$SEED_REVIEWED" ] && grep -n -E "(^|[ =])(rm|rmdir|mv|cp_glob|cd|set_current_directory|temp_dir|exec|spawn)( |$)" "$demo" | grep -v "$out/scratch" | grep -q .; then
  echo "$id-$x: demo uses destructive commands outside $out/scratch - manual review needed"; exit 4
fi
run_demo() {
  case "$demo" in
    *.ds) cargo build -q -p duckscript_cli --offline >>"$log" 2>&1 || return 251
          (cd "$out" && timeout 120 "$wt/target/debug/duck" "$demo") >>"$log" 2>&1; return $? ;;
    *.sh) cargo build -q -p duckscript_cli --offline >>"$log" 2>&1 || return 251
          (cd "$out" && timeout 300 sh "$demo") >>"$log" 2>&1; return $? ;;
    *.rs) crate=duckscript; grep -q -E "duckscriptsdk|duckscript_sdk" "$out/$x.meta.json" 2>/dev/null && crate=duckscript_sdk
          pkg=duckscript; [ -n "$SEED_CRATE" ] && crate="$SEED_CRATE"; [ "$crate" = duckscript_sdk ] && pkg=duckscriptsdk
          mkdir -p "$wt/$crate/tests"; cp "$demo" "$wt/$crate/tests/seed_demo_$x.rs"
          (cd "$wt" && timeout 900 cargo test -q -p $pkg --offline --test seed_demo_$x) >>"$log" 2>&1; rc=$?
          rm -f "$wt/$crate/tests/seed_demo_$x.rs"; rmdir "$wt/$crate/tests" 2>/dev/null; return $rc ;;
    *) return 250 ;;
  esac
}
run_demo; before=$?
git apply "$patch" >>"$log" 2>&1 || { echo "$id-$x: patch does not apply to HEAD"; exit 3; }
run_demo; after=$?
rm -rf duckscript_sdk/target/_duckscript duckscript_sdk/target
cargo test --workspace --offline --no-fail-fast 2>&1 | grep -E "^test .* FAILED|^test result|^error|warning: unused" > /tmp/seed/suite-$id-$x.txt
newfail=$(grep -E "^test \S+ \.\.\. FAILED" /tmp/seed/suite-$id-$x.txt | grep -v -E "sdk::std::net::|utils::io::io_test::(create_empty_file|write_to_text_file)" | wc -l)
builderr=$(grep -c -E "^error(\[|: could not compile)" /tmp/seed/suite-$id-$x.txt)
results=$(grep -c "^test result" /tmp/seed/suite-$id-$x.txt)
git diff > /tmp/seed/applied-$id-$x.diff
git checkout -q -- . ; git clean -qfd -e target >/dev/null 2>&1
echo "$id-$x: demo_without=$before demo_with=$after new_suite_failures=$newfail build_errors=$builderr result_lines=$results"
if [ "$before" = 0 ] && [ "$after" != 0 ] && [ "$after" -lt 250 ] && [ "$newfail" = 0 ] && [ "$builderr" = 0 ] && [ "$results" -ge 3 ]; then
  d=/verif/seeded/$id-$variant; mkdir -p "$d"
  cp /tmp/seed/applied-$id-$x.diff "$d/patch.diff"; cp "$demo" "$d/"
  python3 - "$id" "$x" "$out" "$d" "$head" "$before" "$after" "$variant" "$round" <<'PY'
import json,sys,os
id,x,out,d,head,before,after,variant,rnd=sys.argv[1:]
m={}
try: m=json.load(open(f"{out}/{x}.meta.json"))
except Exception as e: m={"note":"agent meta unreadable"}
meta={"property":id,"variant":variant,"round":int(rnd),"agent_label":x,"base_commit":head,
 "summary":m.get("summary"),"needs_to_manifest":m.get("needs_to_manifest"),"files_touched":m.get("files_touched"),
 "confirmed_by_me":{"where":f"/tmp/seed/wt-{id} (scratch worktree, removed afterwards)",
   "demo_cmd":f"duck {os.path.basename([f for f in os.listdir(d) if '.demo.' in f][0])}",
   "demo_exit_without_change":int(before),"demo_exit_with_change":int(after),
   "suite_cmd":"rm -rf duckscript_sdk/target; cargo test --workspace --offline --no-fail-fast",
   "suite_new_failures_with_change":0},
 "caught_by":None}
json.dump(meta,open(f"{d}/meta.json","w"),indent=1)
PY
  echo "$id-$variant: CONFIRMED -> $d"
else
  echo "$id-$x: NOT CONFIRMED (see $log, /tmp/seed/suite-$id-$x.txt)"
fi
