#!/bin/bash
# confirms every not-yet-confirmed seeded change found in /tmp/seed/out-C*/ (sequentially; slow)
for d in /tmp/seed/out-C*; do id=$(basename $d | sed 's/out-//'); for x in A B; do
  [ -f $d/$x.patch.diff ] || continue
  [ -d /verif/seeded/$id-$x ] && continue
  /verif/seed_confirm.sh $id $x 2>&1 | tail -2
done; done
