#!/bin/bash
# confirms every not-yet-confirmed seeded change found in /tmp/seed/out-C*/ (SEED_ROUND=2: /tmp/seed/out2-C*/), sequentially
round="${SEED_ROUND:-1}"; pre=out; [ "$round" = 2 ] && pre=out2
for d in /tmp/seed/$pre-C*; do id=$(basename $d | sed "s/$pre-//"); for x in A B; do
  [ -f $d/$x.patch.diff ] || continue
  v=$x; if [ "$round" = 2 ]; then [ $x = A ] && v=C; [ $x = B ] && v=D; fi
  [ -d /verif/seeded/$id-$v ] && continue
  /verif/seed_confirm.sh $id $x 2>&1 | tail -2
done; done
