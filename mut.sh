#!/bin/bash
# usage: mut.sh <Cxx> <file-relative-to-/repo> <python-regex-or-literal old> <new>   — ad-hoc sensitivity mutation; reverted afterwards.
id="$1"; f="$2"; old="$3"; new="$4"
cd /repo || exit 2
git diff --quiet || { echo "/repo dirty"; exit 2; }
python3 - "$f" "$old" "$new" <<'PY' || { git checkout -- .; exit 3; }
import sys
f,old,new=sys.argv[1:]
s=open(f).read()
if s.count(old)<1: print("pattern not found"); sys.exit(1)
open(f,'w').write(s.replace(old,new,1))
PY
/verif/check.sh "$id" quick 2>&1 | grep -E "^(VIOLATION|OK|INCONCLUSIVE|  section)" | head -6
git checkout -- .
