#!/bin/bash
# usage: seedtest.sh <patch.diff> <Cxx> [tier]  — applies a seeded breaking change to /repo, runs the check, reverts.
patch="$1"; id="$2"; tier="${3:-quick}"
cd /repo || exit 2
if ! git diff --quiet; then echo "/repo has uncommitted changes"; exit 2; fi
if ! git apply --3way "$patch" 2>/tmp/apply.err; then echo "patch does not apply: $(cat /tmp/apply.err | head -3)"; git checkout -- . ; exit 3; fi
git reset -q
/verif/check.sh "$id" "$tier" 2>&1 | grep -E "^(VIOLATION|OK|INCONCLUSIVE|KNOWN|  section|  signature)" | head -8
rc=${PIPESTATUS[0]}
git checkout -- .
git status --short | head -3
echo "check exit=$rc"
