#!/usr/bin/env python3
"""usage: tape_to_replay.py <property> <section> <libfuzzer-artifact> > replay.json"""
import json, struct, sys
prop, section, path = sys.argv[1:4]
b = open(path, "rb").read()
b += b"\0" * (-len(b) % 4)
tape = list(struct.unpack("<%dI" % (len(b) // 4), b))
json.dump({"property": prop, "section": section, "signature": "libfuzzer-artifact", "tape": tape, "detail": {"artifact": path}}, sys.stdout, indent=1)
