#![no_main]
//! Generic coverage-guided driver: the fuzzer's bytes are read as a choice tape (little-endian u32 words) for the
//! property and section named in DSVERIF_PROP / DSVERIF_SECTION (default C01 / lines) and the SAME oracle as the
//! proptest run is evaluated in-target. A crash artefact is therefore a tape; convert it with
//! `fuzz/tape_to_replay.py` and re-run it with `dsverif replay`.
use libfuzzer_sys::fuzz_target;
use std::sync::OnceLock;

static TARGET: OnceLock<(String, String)> = OnceLock::new();

fuzz_target!(|data: &[u8]| {
    let (prop, section) = TARGET.get_or_init(|| {
        dsverif::engine::install_panic_hook_passthrough();
        (std::env::var("DSVERIF_PROP").unwrap_or_else(|_| "C01".into()), std::env::var("DSVERIF_SECTION").unwrap_or_else(|_| "lines".into()))
    });
    let tape: Vec<u32> = data
        .chunks(4)
        .map(|c| {
            let mut b = [0u8; 4];
            b[..c.len()].copy_from_slice(c);
            u32::from_le_bytes(b)
        })
        .collect();
    thread_local! {
        static PROP: std::cell::RefCell<Option<dsverif::engine::Property>> = std::cell::RefCell::new(None);
    }
    PROP.with(|p| {
        let mut p = p.borrow_mut();
        if p.is_none() {
            *p = dsverif::props::all().into_iter().find(|x| x.id == prop.as_str());
        }
        let p = p.as_ref().expect("unknown property");
        dsverif::engine::fuzz_one(p, section, &tape);
    });
});
