//! The engine: choice tapes, proptest-driven sharded search, shrinking, known findings, evidence.

use proptest::collection::vec as pvec;
use proptest::prelude::any;
use proptest::test_runner::{Config, RngAlgorithm, TestCaseError, TestError, TestRng, TestRunner};
use serde_json::{json, Value};
use std::cell::RefCell;
use std::collections::hash_map::DefaultHasher;
use std::collections::{BTreeMap, HashSet};
use std::hash::{Hash, Hasher};
use std::panic::{catch_unwind, AssertUnwindSafe};
use std::time::Instant;

pub const SHARDS: usize = 16;
const STACK: usize = 1 << 30;

// ------------------------------------------------------------------------------------------------
// Tape
// ------------------------------------------------------------------------------------------------

/// A finite sequence of choices; reading past the end yields 0 (the simplest choice everywhere).
pub struct Tape<'a> {
    d: &'a [u32],
    p: usize,
}

impl<'a> Tape<'a> {
    pub fn new(d: &'a [u32]) -> Tape<'a> {
        Tape { d, p: 0 }
    }
    pub fn raw(&mut self) -> u32 {
        let v = if self.p < self.d.len() { self.d[self.p] } else { 0 };
        self.p += 1;
        v
    }
    /// Uniform in 0..n, monotone in the raw value (0 -> 0).
    pub fn below(&mut self, n: usize) -> usize {
        if n <= 1 {
            // still consume, so that tapes stay aligned
            self.raw();
            return 0;
        }
        ((self.raw() as u64 * n as u64) >> 32) as usize
    }
    /// inclusive range
    pub fn range(&mut self, lo: i64, hi: i64) -> i64 {
        lo + self.below((hi - lo + 1) as usize) as i64
    }
    /// true with probability num/den; raw 0 -> false
    pub fn chance(&mut self, num: usize, den: usize) -> bool {
        self.below(den) >= den - num
    }
    pub fn flip(&mut self) -> bool {
        self.chance(1, 2)
    }
    pub fn pick<T: Copy>(&mut self, xs: &[T]) -> T {
        xs[self.below(xs.len())]
    }
    pub fn pick_ref<'b, T>(&mut self, xs: &'b [T]) -> &'b T {
        &xs[self.below(xs.len())]
    }
    /// weighted pick: returns index; first alternative is the simplest
    pub fn weighted(&mut self, ws: &[u32]) -> usize {
        let total: u32 = ws.iter().sum();
        let mut x = self.below(total as usize) as u32;
        for (i, w) in ws.iter().enumerate() {
            if x < *w {
                return i;
            }
            x -= *w;
        }
        ws.len() - 1
    }
    /// A length in 0..=max biased towards small values (roughly geometric), 0 -> 0.
    pub fn len(&mut self, max: usize) -> usize {
        if max == 0 {
            self.raw();
            return 0;
        }
        let r = self.raw();
        // split: 3/4 of the mass on a quadratic-small distribution, 1/4 uniform
        let u = (r as f64) / 4294967296.0;
        let v = if u < 0.75 {
            let w = u / 0.75;
            (w * w * (max as f64 + 1.0)) as usize
        } else {
            (((u - 0.75) / 0.25) * (max as f64 + 1.0)) as usize
        };
        v.min(max)
    }
    pub fn exhausted(&self) -> bool {
        self.p >= self.d.len()
    }
    pub fn used(&self) -> usize {
        self.p
    }
}

// ------------------------------------------------------------------------------------------------
// Verdicts, stats
// ------------------------------------------------------------------------------------------------

pub struct Fail {
    /// stable, case-derived signature (used for the known-findings file)
    pub signature: String,
    pub detail: Value,
}

pub enum Verdict {
    /// passed; optional fingerprint if the case was non-trivial by the property's rule
    Pass(Option<u64>),
    /// generator/model refused the case (counted, with reason)
    Discard(&'static str),
    Fail(Fail),
}

pub fn fail(signature: &str, detail: Value) -> Verdict {
    Verdict::Fail(Fail {
        signature: signature.to_string(),
        detail,
    })
}

#[derive(Default, Clone)]
pub struct Stats {
    pub evaluations: u64,
    pub nontrivial: HashSet<u64>,
    pub classes: BTreeMap<String, u64>,
    pub discarded: BTreeMap<String, u64>,
    pub excluded_known: BTreeMap<String, u64>,
    pub samples: Vec<Value>,
    pub known_examples: BTreeMap<String, Value>,
    pub counting: bool,
}

impl Stats {
    pub fn class(&mut self, name: &str) {
        if self.counting {
            *self.classes.entry(name.to_string()).or_insert(0) += 1;
        }
    }
    pub fn class_n(&mut self, name: &str, n: u64) {
        if self.counting {
            *self.classes.entry(name.to_string()).or_insert(0) += n;
        }
    }
    pub fn sample(&mut self, f: impl FnOnce() -> Value) {
        if self.counting && self.samples.len() < 3 {
            self.samples.push(f());
        }
    }
    pub fn want_sample(&self) -> bool {
        self.counting && self.samples.len() < 3
    }
    fn merge(&mut self, o: Stats) {
        self.evaluations += o.evaluations;
        self.nontrivial.extend(o.nontrivial);
        for (k, v) in o.classes {
            *self.classes.entry(k).or_insert(0) += v;
        }
        for (k, v) in o.discarded {
            *self.discarded.entry(k).or_insert(0) += v;
        }
        for (k, v) in o.excluded_known {
            *self.excluded_known.entry(k).or_insert(0) += v;
        }
        for s in o.samples {
            if self.samples.len() < 6 {
                self.samples.push(s);
            }
        }
        for (k, v) in o.known_examples {
            self.known_examples.entry(k).or_insert(v);
        }
    }
}

pub fn fp<T: Hash>(t: &T) -> u64 {
    let mut h = DefaultHasher::new();
    t.hash(&mut h);
    h.finish()
}

// ------------------------------------------------------------------------------------------------
// Property description
// ------------------------------------------------------------------------------------------------

#[derive(Clone, Copy, PartialEq, Debug)]
pub enum Tier {
    Quick,
    Thorough,
}

pub enum Plan {
    /// `cases` random tapes of length 0..=max_len
    Random { cases: u64, max_len: usize },
    /// tapes [hi, lo] of the index for every index in 0..count
    Exhaustive { count: u64 },
    Skip,
}

pub type CaseFn = fn(&mut Tape, &mut Stats) -> Verdict;

pub struct Section {
    pub name: &'static str,
    pub plan: fn(Tier) -> Plan,
    pub case: CaseFn,
    /// minimum class frequencies asserted in the quick tier: (class, min count)
    pub min_classes: &'static [(&'static str, u64)],
}

pub struct Probe {
    /// signature of the known finding this probe re-confirms
    pub signature: &'static str,
    /// returns Some(description) when the defect still reproduces
    pub run: fn() -> Option<String>,
}

pub struct Property {
    pub id: &'static str,
    pub rule: &'static str,
    pub assumptions: &'static [&'static str],
    pub sections: Vec<Section>,
    pub probes: Vec<Probe>,
}

// ------------------------------------------------------------------------------------------------
// Known findings
// ------------------------------------------------------------------------------------------------

pub struct Known {
    /// (property, signature, text)
    pub known: Vec<(String, String, String)>,
}

impl Known {
    pub fn load() -> Known {
        let path = format!("{}/KNOWN_FINDINGS.txt", verif_dir());
        let mut known = vec![];
        if let Ok(text) = std::fs::read_to_string(&path) {
            for line in text.lines() {
                let line = line.trim();
                if let Some(rest) = line.strip_prefix("known:") {
                    let rest = rest.trim();
                    let mut prop = String::new();
                    let mut sig = String::new();
                    let mut tail = String::new();
                    for (i, tok) in rest.splitn(3, ' ').enumerate() {
                        match i {
                            0 => prop = tok.trim_start_matches("property=").to_string(),
                            1 => sig = tok.trim_start_matches("signature=").to_string(),
                            _ => tail = tok.to_string(),
                        }
                    }
                    known.push((prop, sig, tail));
                }
            }
        }
        Known { known }
    }
    pub fn is_known(&self, prop: &str, sig: &str) -> bool {
        self.known.iter().any(|(p, s, _)| p == prop && s == sig)
    }
    pub fn for_prop(&self, prop: &str) -> Vec<(String, String)> {
        self.known
            .iter()
            .filter(|(p, _, _)| p == prop)
            .map(|(_, s, t)| (s.clone(), t.clone()))
            .collect()
    }
}

pub fn verif_dir() -> String {
    std::env::var("VERIF_DIR").unwrap_or_else(|_| "/verif".to_string())
}

// ------------------------------------------------------------------------------------------------
// Panic capture
// ------------------------------------------------------------------------------------------------

thread_local! {
    pub static LAST_PANIC: RefCell<Option<(String, String)>> = RefCell::new(None);
}

pub fn install_panic_hook() {
    std::panic::set_hook(Box::new(|info| {
        let msg = if let Some(s) = info.payload().downcast_ref::<&str>() {
            s.to_string()
        } else if let Some(s) = info.payload().downcast_ref::<String>() {
            s.clone()
        } else {
            "<non-string panic>".to_string()
        };
        let loc = info
            .location()
            .map(|l| format!("{}:{}", l.file(), l.line()))
            .unwrap_or_default();
        LAST_PANIC.with(|p| *p.borrow_mut() = Some((msg, loc)));
    }));
}

/// For the libFuzzer target: keep recording panic message and location (cases classify panics of the code under
/// test through `guarded`) but leave the default printing in place so that a real crash is visible.
pub fn install_panic_hook_passthrough() {
    let default = std::panic::take_hook();
    std::panic::set_hook(Box::new(move |info| {
        let msg = if let Some(s) = info.payload().downcast_ref::<&str>() {
            s.to_string()
        } else if let Some(s) = info.payload().downcast_ref::<String>() {
            s.clone()
        } else {
            "<non-string panic>".to_string()
        };
        let loc = info.location().map(|l| format!("{}:{}", l.file(), l.line())).unwrap_or_default();
        let is_verdict = msg.starts_with("VIOLATION") || msg.starts_with("HARNESS");
        LAST_PANIC.with(|p| *p.borrow_mut() = Some((msg, loc)));
        if is_verdict {
            default(info);
        }
    }));
}

pub fn take_panic() -> Option<(String, String)> {
    LAST_PANIC.with(|p| p.borrow_mut().take())
}

/// Runs f catching unwinds; Err((message, location)).
pub fn guarded<T>(f: impl FnOnce() -> T) -> Result<T, (String, String)> {
    let _ = take_panic();
    match catch_unwind(AssertUnwindSafe(f)) {
        Ok(v) => Ok(v),
        Err(_) => Err(take_panic().unwrap_or(("<unknown>".into(), "".into()))),
    }
}

fn is_harness_location(loc: &str) -> bool {
    loc.contains("harness/src") || loc.starts_with("src/")
}

// ------------------------------------------------------------------------------------------------
// Running
// ------------------------------------------------------------------------------------------------

// ------------------------------------------------------------------------------------------------
// Watchdog: a case stuck in native code (or allocating without bound) cannot be cut by fuel
// ------------------------------------------------------------------------------------------------

pub struct Slot {
    pub started: Option<Instant>,
    pub tape: Vec<u32>,
    pub section: &'static str,
}

pub static SLOTS: std::sync::Mutex<Vec<Slot>> = std::sync::Mutex::new(Vec::new());
thread_local! {
    static MY_SLOT: std::cell::Cell<usize> = std::cell::Cell::new(usize::MAX);
}

thread_local! {
    static CUR_FILE: RefCell<Option<std::fs::File>> = RefCell::new(None);
}

/// In an isolated shard process: record the tape of the case about to run, so that the parent can tell
/// which case killed the process (stack overflow / abort cannot be caught in-process).
fn record_current_tape(tape: &[u32]) {
    if let Ok(path) = std::env::var("DSVERIF_CUR_FILE") {
        CUR_FILE.with(|f| {
            let mut f = f.borrow_mut();
            if f.is_none() {
                *f = std::fs::OpenOptions::new().create(true).write(true).truncate(true).open(&path).ok();
            }
            if let Some(file) = f.as_mut() {
                use std::io::{Seek, SeekFrom, Write};
                let mut buf: Vec<u8> = Vec::with_capacity(8 + tape.len() * 4);
                buf.extend_from_slice(&(tape.len() as u64).to_le_bytes());
                for x in tape {
                    buf.extend_from_slice(&x.to_le_bytes());
                }
                let _ = file.seek(SeekFrom::Start(0));
                let _ = file.write_all(&buf);
            }
        });
    }
}

fn read_current_tape(path: &str) -> Option<Vec<u32>> {
    let b = std::fs::read(path).ok()?;
    if b.len() < 8 {
        return None;
    }
    let n = u64::from_le_bytes(b[..8].try_into().ok()?) as usize;
    if b.len() < 8 + n * 4 {
        return None;
    }
    Some((0..n).map(|i| u32::from_le_bytes(b[8 + i * 4..12 + i * 4].try_into().unwrap())).collect())
}

fn slot_begin(section: &'static str, tape: &[u32]) {
    record_current_tape(tape);
    let idx = MY_SLOT.with(|m| m.get());
    let mut g = SLOTS.lock().unwrap();
    let idx = if idx == usize::MAX {
        g.push(Slot { started: None, tape: vec![], section });
        let i = g.len() - 1;
        MY_SLOT.with(|m| m.set(i));
        i
    } else {
        idx
    };
    let s = &mut g[idx];
    s.started = Some(Instant::now());
    s.tape.clear();
    s.tape.extend_from_slice(tape);
    s.section = section;
}

fn slot_end() {
    let idx = MY_SLOT.with(|m| m.get());
    if idx != usize::MAX {
        SLOTS.lock().unwrap()[idx].started = None;
    }
}

fn rss_gib() -> f64 {
    std::fs::read_to_string("/proc/self/statm")
        .ok()
        .and_then(|s| s.split_whitespace().nth(1).and_then(|p| p.parse::<f64>().ok()))
        .map(|pages| pages * 4096.0 / (1u64 << 30) as f64)
        .unwrap_or(0.0)
}

pub fn start_watchdog(prop: &'static str, limit_s: u64) {
    std::thread::spawn(move || loop {
        std::thread::sleep(std::time::Duration::from_millis(1000));
        let rss = rss_gib();
        let g = SLOTS.lock().unwrap();
        let mut stuck: Option<(&Slot, u64)> = None;
        for s in g.iter() {
            if let Some(t0) = s.started {
                let el = t0.elapsed().as_secs();
                if el >= limit_s || rss > 24.0 {
                    if stuck.map(|(_, e)| el > e).unwrap_or(true) {
                        stuck = Some((s, el));
                    }
                }
            }
        }
        if let Some((s, el)) = stuck {
            let v = Violation {
                section: s.section.to_string(),
                signature: "watchdog/hang-or-runaway-allocation".into(),
                tape: s.tape.clone(),
                detail: json!({"elapsed_s": el, "rss_gib": rss, "note": "case did not finish; not cut by fuel, so it is stuck inside native code or allocating without bound"}),
            };
            let path = write_replay(prop, &v);
            println!(
                "INCONCLUSIVE property={} watchdog: a case in section {} ran {} s (rss {:.1} GiB) without finishing; tape saved to {}",
                prop, s.section, el, rss, path
            );
            std::process::exit(2);
        }
    });
}

pub struct Violation {
    pub section: String,
    pub signature: String,
    pub tape: Vec<u32>,
    pub detail: Value,
}

pub enum CaseOutcome {
    Ok,
    Violation(Fail),
    HarnessError(String),
}

/// Runs one case with bookkeeping; known findings are counted and pass.
fn run_case(
    prop: &str,
    section: &'static str,
    case: CaseFn,
    tape: &[u32],
    stats: &mut Stats,
    known: &Known,
    strict: bool,
) -> CaseOutcome {
    let mut t = Tape::new(tape);
    slot_begin(section, tape);
    let r = guarded(|| case(&mut t, stats));
    slot_end();
    if stats.counting {
        stats.evaluations += 1;
    }
    match r {
        Ok(Verdict::Pass(nt)) => {
            if stats.counting {
                if let Some(h) = nt {
                    stats.nontrivial.insert(h);
                    // last resort: a case the property did not describe itself is recorded by its (replayable) tape
                    if stats.samples.is_empty() {
                        stats.samples.push(json!({"section": section, "replayable_tape": tape.iter().take(64).collect::<Vec<_>>(), "note": "non-trivial case recorded by its choice tape (dsverif replay accepts it)"}));
                    }
                }
            }
            CaseOutcome::Ok
        }
        Ok(Verdict::Discard(reason)) => {
            if stats.counting {
                *stats.discarded.entry(reason.to_string()).or_insert(0) += 1;
            }
            CaseOutcome::Ok
        }
        Ok(Verdict::Fail(f)) => {
            if !strict && known.is_known(prop, &f.signature) {
                if stats.counting {
                    *stats.excluded_known.entry(f.signature.clone()).or_insert(0) += 1;
                    stats
                        .known_examples
                        .entry(f.signature.clone())
                        .or_insert(f.detail.clone());
                }
                CaseOutcome::Ok
            } else {
                CaseOutcome::Violation(f)
            }
        }
        Err((msg, loc)) => {
            if is_harness_location(&loc) {
                CaseOutcome::HarnessError(format!("harness panic at {}: {}", loc, msg))
            } else {
                let sig = format!("panic@{}", short_loc(&loc));
                let f = Fail {
                    signature: sig.clone(),
                    detail: json!({"panic": msg, "location": loc}),
                };
                if !strict && known.is_known(prop, &sig) {
                    if stats.counting {
                        *stats.excluded_known.entry(sig.clone()).or_insert(0) += 1;
                        stats.known_examples.entry(sig).or_insert(f.detail.clone());
                    }
                    CaseOutcome::Ok
                } else {
                    CaseOutcome::Violation(f)
                }
            }
        }
    }
}

pub fn short_loc(loc: &str) -> String {
    // strip everything up to the crate directory so the signature is stable across checkouts
    let l = loc.rsplit("/repo/").next().unwrap_or(loc);
    let l = match l.find("registry/src/") {
        Some(i) => {
            let rest = &l[i + "registry/src/".len()..];
            match rest.find('/') {
                Some(j) => &rest[j + 1..],
                None => rest,
            }
        }
        None => l,
    };
    // drop the line number: signatures must survive unrelated edits
    l.rsplitn(2, ':').last().unwrap_or(l).to_string()
}

fn shard_seed(seed: u64, prop: &str, section: &str, shard: usize) -> [u8; 32] {
    let mut out = [0u8; 32];
    for i in 0..4u64 {
        let mut h = DefaultHasher::new();
        (seed, prop, section, shard as u64, i).hash(&mut h);
        out[(i as usize) * 8..(i as usize + 1) * 8].copy_from_slice(&h.finish().to_le_bytes());
    }
    out
}

pub struct SectionResult {
    pub stats: Stats,
    pub violation: Option<Violation>,
    pub harness_error: Option<String>,
}

fn run_random_shard(
    prop: &'static str,
    section: &'static str,
    case: CaseFn,
    cases: u64,
    max_len: usize,
    seed: [u8; 32],
) -> SectionResult {
    let known = Known::load();
    let stats = RefCell::new(Stats {
        counting: true,
        ..Default::default()
    });
    let herr: RefCell<Option<String>> = RefCell::new(None);
    // the first failing case as generated (kept in case the shrunk one does not reproduce, e.g. timing dependent)
    let first: RefCell<Option<(Vec<u32>, Fail)>> = RefCell::new(None);
    let config = Config {
        cases: cases as u32,
        failure_persistence: None,
        max_shrink_iters: 20_000,
        // a time budget for shrinking only (never a verdict): the best reduction found so far is reported
        max_shrink_time: std::env::var("VERIF_SHRINK_MS").ok().and_then(|v| v.parse().ok()).unwrap_or(45_000),
        max_global_rejects: 1_000_000,
        verbose: 0,
        ..Config::default()
    };
    let mut runner = TestRunner::new_with_rng(config, TestRng::from_seed(RngAlgorithm::ChaCha, &seed));
    let strat = pvec(any::<u32>(), 0..=max_len);
    let result = runner.run(&strat, |tape| {
        let mut st = stats.borrow_mut();
        match run_case(prop, section, case, &tape, &mut st, &known, false) {
            CaseOutcome::Ok => Ok(()),
            CaseOutcome::Violation(f) => {
                st.counting = false;
                let sig = f.signature.clone();
                if first.borrow().is_none() {
                    *first.borrow_mut() = Some((tape.clone(), f));
                }
                Err(TestCaseError::fail(sig))
            }
            CaseOutcome::HarnessError(e) => {
                st.counting = false;
                *herr.borrow_mut() = Some(e.clone());
                Err(TestCaseError::fail(format!("HARNESS: {}", e)))
            }
        }
    });
    let mut st = stats.into_inner();
    let mut violation = None;
    let harness_error = herr.into_inner();
    if let Err(TestError::Fail(_, tape)) = result {
        if harness_error.is_none() {
            // re-run the minimal tape to obtain the detail
            st.counting = false;
            let mut scratch = Stats::default();
            match run_case(prop, section, case, &tape, &mut scratch, &known, false) {
                CaseOutcome::Violation(f) => {
                    violation = Some(Violation {
                        section: section.to_string(),
                        signature: f.signature,
                        tape,
                        detail: f.detail,
                    })
                }
                _ => {
                    // not reproducible on the shrunk tape: report the failure as first observed
                    let _ = tape;
                    if let Some((t0, f0)) = first.into_inner() {
                        let mut d = f0.detail;
                        if let Value::Object(m) = &mut d {
                            m.insert("note".into(), json!("observed once; did not reproduce while shrinking (schedule dependent)"));
                        }
                        violation = Some(Violation { section: section.to_string(), signature: f0.signature, tape: t0, detail: d })
                    }
                }
            }
        }
    } else if let Err(TestError::Abort(r)) = result {
        return SectionResult {
            stats: st,
            violation: None,
            harness_error: Some(format!("proptest aborted: {}", r)),
        };
    }
    SectionResult {
        stats: st,
        violation,
        harness_error,
    }
}

fn run_exhaustive_shard(
    prop: &'static str,
    section: &'static str,
    case: CaseFn,
    count: u64,
    shard: usize,
) -> SectionResult {
    let known = Known::load();
    let mut st = Stats {
        counting: true,
        ..Default::default()
    };
    let mut i = shard as u64;
    while i < count {
        let tape = vec![(i >> 32) as u32, i as u32];
        match run_case(prop, section, case, &tape, &mut st, &known, false) {
            CaseOutcome::Ok => {}
            CaseOutcome::Violation(f) => {
                return SectionResult {
                    stats: st,
                    violation: Some(Violation {
                        section: section.to_string(),
                        signature: f.signature,
                        tape,
                        detail: f.detail,
                    }),
                    harness_error: None,
                }
            }
            CaseOutcome::HarnessError(e) => {
                return SectionResult {
                    stats: st,
                    violation: None,
                    harness_error: Some(e),
                }
            }
        }
        i += SHARDS as u64;
    }
    SectionResult {
        stats: st,
        violation: None,
        harness_error: None,
    }
}

/// Sections whose cases may kill the process (abort, stack overflow): their shards run as child processes.
pub fn isolated(prop: &str, section: &str) -> bool {
    prop == "C07" && (section == "commands" || section == "text" || section == "commands-large" || section == "regressions")
}

fn stats_to_json(st: &Stats) -> Value {
    json!({
        "evaluations": st.evaluations,
        "nontrivial": st.nontrivial.iter().collect::<Vec<_>>(),
        "classes": st.classes,
        "discarded": st.discarded,
        "excluded_known": st.excluded_known,
        "samples": st.samples,
        "known_examples": st.known_examples,
    })
}

fn stats_from_json(v: &Value) -> Stats {
    let mut st = Stats::default();
    st.evaluations = v["evaluations"].as_u64().unwrap_or(0);
    if let Some(a) = v["nontrivial"].as_array() {
        st.nontrivial = a.iter().filter_map(|x| x.as_u64()).collect();
    }
    let map = |k: &str| -> BTreeMap<String, u64> { v[k].as_object().map(|m| m.iter().map(|(k, x)| (k.clone(), x.as_u64().unwrap_or(0))).collect()).unwrap_or_default() };
    st.classes = map("classes");
    st.discarded = map("discarded");
    st.excluded_known = map("excluded_known");
    st.samples = v["samples"].as_array().cloned().unwrap_or_default();
    st.known_examples = v["known_examples"].as_object().map(|m| m.iter().map(|(k, x)| (k.clone(), x.clone())).collect()).unwrap_or_default();
    st
}

/// Entry point of a child process: runs one shard and prints its result as one JSON line.
pub fn run_shard_child(p: &Property, section: &str, tier: Tier, seed: u64, shard: usize) -> i32 {
    let sec = match p.sections.iter().find(|s| s.name == section) {
        Some(s) => s,
        None => return 2,
    };
    let (prop, name, case) = (p.id, sec.name, sec.case);
    let plan = (sec.plan)(tier);
    start_watchdog(p.id, std::env::var("VERIF_CASE_LIMIT_S").ok().and_then(|v| v.parse().ok()).unwrap_or(60));
    let h = std::thread::Builder::new()
        .stack_size(STACK)
        .spawn(move || match plan {
            Plan::Random { cases, max_len } => {
                let per = (cases + SHARDS as u64 - 1) / SHARDS as u64;
                run_random_shard(prop, name, case, per, max_len, shard_seed(seed, prop, name, shard))
            }
            Plan::Exhaustive { count } => run_exhaustive_shard(prop, name, case, count, shard),
            Plan::Skip => SectionResult { stats: Stats::default(), violation: None, harness_error: None },
        })
        .expect("spawn");
    let r = match h.join() {
        Ok(r) => r,
        Err(_) => return 2,
    };
    let out = json!({
        "stats": stats_to_json(&r.stats),
        "violation": r.violation.as_ref().map(|v| json!({"section": v.section, "signature": v.signature, "tape": v.tape, "detail": v.detail})),
        "harness_error": r.harness_error,
    });
    println!("DSVERIF-SHARD-RESULT {}", out);
    0
}

fn run_section_isolated(prop: &'static str, sec: &Section, tier: Tier, seed: u64) -> SectionResult {
    let exe = std::env::current_exe().expect("current exe");
    let dir = crate::hz::scratch_root();
    let mut children = vec![];
    for shard in 0..SHARDS {
        let cur = format!("{}/cur-{}-{}-{}", dir, prop, sec.name, shard);
        let _ = std::fs::remove_file(&cur);
        let child = std::process::Command::new(&exe)
            .args(["shard", prop, sec.name, if tier == Tier::Quick { "quick" } else { "thorough" }, &seed.to_string(), &shard.to_string()])
            .env("DSVERIF_CUR_FILE", &cur)
            // generated scripts run with the scratch directory as working directory
            .current_dir(&dir)
            .stdin(std::process::Stdio::null())
            .stdout(std::process::Stdio::piped())
            .stderr(std::process::Stdio::piped())
            .spawn()
            .expect("spawn shard process");
        children.push((shard, cur, child));
    }
    let mut total = Stats::default();
    let mut violation: Option<Violation> = None;
    let mut herr = None;
    // collect all children concurrently (a finished child blocks on its pipe until it is read)
    let waiters: Vec<_> = children
        .into_iter()
        .map(|(shard, cur, child)| std::thread::spawn(move || (shard, cur, child.wait_with_output())))
        .collect();
    for w in waiters {
        let (shard, cur, out) = w.join().expect("join waiter");
        let out = out.expect("wait shard");
        let stdout = String::from_utf8_lossy(&out.stdout).to_string();
        let line = stdout.lines().rev().find(|l| l.starts_with("DSVERIF-SHARD-RESULT "));
        match line {
            Some(l) => {
                let v: Value = serde_json::from_str(&l["DSVERIF-SHARD-RESULT ".len()..]).unwrap_or(Value::Null);
                total.merge(stats_from_json(&v["stats"]));
                if let Some(vi) = v["violation"].as_object() {
                    let nv = Violation {
                        section: vi["section"].as_str().unwrap_or("").to_string(),
                        signature: vi["signature"].as_str().unwrap_or("").to_string(),
                        tape: vi["tape"].as_array().map(|a| a.iter().map(|x| x.as_u64().unwrap_or(0) as u32).collect()).unwrap_or_default(),
                        detail: vi["detail"].clone(),
                    };
                    let better = match &violation {
                        None => true,
                        Some(o) => (nv.tape.len(), &nv.tape) < (o.tape.len(), &o.tape),
                    };
                    if better {
                        violation = Some(nv);
                    }
                }
                if let Some(e) = v["harness_error"].as_str() {
                    herr = Some(e.to_string());
                }
            }
            None => {
                // the shard process died: the case it was running is the culprit
                use std::os::unix::process::ExitStatusExt;
                let how = match out.status.signal() {
                    Some(sig) => format!("signal-{}", sig),
                    None => format!("exit-status-{}", out.status.code().unwrap_or(-1)),
                };
                let stderr = String::from_utf8_lossy(&out.stderr).to_string();
                let tail: String = stderr.lines().rev().take(6).collect::<Vec<_>>().into_iter().rev().collect::<Vec<_>>().join(" | ");
                if out.status.code() == Some(2) && stdout.contains("INCONCLUSIVE") {
                    herr = Some(stdout.lines().find(|l| l.contains("INCONCLUSIVE")).unwrap_or("shard inconclusive").to_string());
                } else {
                    match read_current_tape(&cur) {
                        Some(tape) => {
                            let what = if tail.contains("overflowed its stack") { "stack-overflow".to_string() } else { how.clone() };
                            violation = Some(Violation {
                                section: sec.name.to_string(),
                                signature: format!("process-aborted/{}", what),
                                tape,
                                detail: json!({"shard": shard, "termination": how, "stderr_tail": tail, "note": "the shard process died while running this case (not shrunk)"}),
                            });
                        }
                        None => herr = Some(format!("shard {} died ({}) before running a case: {}", shard, how, tail)),
                    }
                }
            }
        }
        let _ = std::fs::remove_file(&cur);
    }
    SectionResult { stats: total, violation, harness_error: herr }
}

pub fn run_section(prop: &'static str, sec: &Section, tier: Tier, seed: u64) -> SectionResult {
    if isolated(prop, sec.name) && std::env::var("DSVERIF_NO_ISOLATE").is_err() {
        return run_section_isolated(prop, sec, tier, seed);
    }
    let plan = (sec.plan)(tier);
    let case = sec.case;
    let name = sec.name;
    let mut handles = vec![];
    for shard in 0..SHARDS {
        let b = std::thread::Builder::new().stack_size(STACK).name(format!("{}-{}-{}", prop, name, shard));
        let h = match plan {
            Plan::Random { cases, max_len } => {
                let per = (cases + SHARDS as u64 - 1) / SHARDS as u64;
                let s = shard_seed(seed, prop, name, shard);
                b.spawn(move || run_random_shard(prop, name, case, per, max_len, s))
            }
            Plan::Exhaustive { count } => b.spawn(move || run_exhaustive_shard(prop, name, case, count, shard)),
            Plan::Skip => b.spawn(move || SectionResult {
                stats: Stats::default(),
                violation: None,
                harness_error: None,
            }),
        };
        handles.push(h.expect("spawn"));
    }
    let mut total = Stats::default();
    let mut violation: Option<Violation> = None;
    let mut herr = None;
    for h in handles {
        match h.join() {
            Ok(r) => {
                total.merge(r.stats);
                if let Some(v) = r.violation {
                    // keep the smallest tape
                    let better = match &violation {
                        None => true,
                        Some(o) => (v.tape.len(), &v.tape) < (o.tape.len(), &o.tape),
                    };
                    if better {
                        violation = Some(v);
                    }
                }
                if r.harness_error.is_some() {
                    herr = r.harness_error;
                }
            }
            Err(_) => herr = Some("worker thread panicked".to_string()),
        }
    }
    SectionResult {
        stats: total,
        violation,
        harness_error: herr,
    }
}

// ------------------------------------------------------------------------------------------------
// Check driver
// ------------------------------------------------------------------------------------------------

pub fn write_replay(prop: &str, v: &Violation) -> String {
    let dir = format!("{}/replays", verif_dir());
    let _ = std::fs::create_dir_all(&dir);
    let h = fp(&(prop, &v.section, &v.tape));
    let path = format!("{}/{}-{:016x}.json", dir, prop, h);
    let doc = json!({
        "property": prop,
        "section": v.section,
        "signature": v.signature,
        "tape": v.tape,
        "detail": v.detail,
    });
    let _ = std::fs::write(&path, serde_json::to_string_pretty(&doc).unwrap());
    path
}

pub fn check(p: &Property, tier: Tier, seed: u64, only: Option<&str>) -> i32 {
    let start = Instant::now();
    let limit: u64 = std::env::var("VERIF_CASE_LIMIT_S").ok().and_then(|v| v.parse().ok()).unwrap_or(60);
    start_watchdog(p.id, limit);
    let known = Known::load();
    let mut total = Stats::default();
    let mut per_section = vec![];
    let mut violations: Vec<Violation> = vec![];
    let mut harness_errors = vec![];
    let mut exhaustive_all = true;
    let mut any_exhaustive = false;
    let mut degraded = vec![];
    for sec in &p.sections {
        if let Some(o) = only {
            if o != sec.name {
                continue;
            }
        }
        let plan = (sec.plan)(tier);
        let plan_desc = match plan {
            Plan::Random { cases, max_len } => {
                exhaustive_all = false;
                json!({"mode":"random","cases":cases,"max_tape_len":max_len})
            }
            Plan::Exhaustive { count } => {
                any_exhaustive = true;
                json!({"mode":"exhaustive","count":count})
            }
            Plan::Skip => continue,
        };
        let t0 = Instant::now();
        let r = run_section(p.id, sec, tier, seed);
        let secs = t0.elapsed().as_secs_f64();
        eprintln!(
            "[{}] section {:<22} evaluations={:<9} nontrivial={:<8} discarded={:<7} known={:<6} {:.1}s",
            p.id,
            sec.name,
            r.stats.evaluations,
            r.stats.nontrivial.len(),
            r.stats.discarded.values().sum::<u64>(),
            r.stats.excluded_known.values().sum::<u64>(),
            secs
        );
        if tier == Tier::Quick && r.violation.is_none() && r.harness_error.is_none() {
            for (c, min) in sec.min_classes {
                let got = r.stats.classes.get(*c).copied().unwrap_or(0);
                if got < *min {
                    degraded.push(format!("section {} class {} count {} < {}", sec.name, c, got, min));
                }
            }
        }
        per_section.push(json!({
            "section": sec.name,
            "plan": plan_desc,
            "evaluations": r.stats.evaluations,
            "distinct_nontrivial": r.stats.nontrivial.len(),
            "wall_s": secs,
        }));
        if let Some(e) = r.harness_error {
            harness_errors.push(format!("{}: {}", sec.name, e));
        }
        if let Some(v) = r.violation {
            violations.push(v);
        }
        total.merge(r.stats);
    }

    // probes for known findings
    let mut known_lines = vec![];
    let mut stale_known = vec![];
    for (sig, text) in known.for_prop(p.id) {
        let probe = p.probes.iter().find(|pr| pr.signature == sig);
        let reproduced = match probe {
            Some(pr) => match guarded(|| (pr.run)()) {
                Ok(Some(desc)) => Some(desc),
                Ok(None) => None,
                Err((m, l)) => Some(format!("probe panicked: {} at {}", m, l)),
            },
            None => {
                // no dedicated probe: reproduced if the search met it
                total.excluded_known.get(&sig).map(|n| format!("met {} times by the search", n))
            }
        };
        match reproduced {
            Some(desc) => known_lines.push(format!("KNOWN-FINDING: property={} signature={} {} [{}]", p.id, sig, text, desc)),
            None => stale_known.push(sig),
        }
    }

    let wall = start.elapsed().as_secs_f64();
    let mut replay_paths = vec![];
    for v in &violations {
        replay_paths.push(write_replay(p.id, v));
    }

    // evidence
    let classes: serde_json::Map<String, Value> = total.classes.iter().map(|(k, v)| (k.clone(), json!(v))).collect();
    let ev = json!({
        "property_id": p.id,
        "tier": if tier == Tier::Quick {"quick"} else {"thorough"},
        "seed": seed,
        "level": "exploration",
        "coverage": {
            "evaluations": total.evaluations,
            "distinct_nontrivial": total.nontrivial.len(),
            "rule": p.rule,
            "samples": total.samples,
            "exhaustive": any_exhaustive && exhaustive_all,
            "sections": per_section,
            "classes": classes,
            "discarded": total.discarded,
            "excluded_known": total.excluded_known,
            "known_examples": total.known_examples,
            "known_findings_reconfirmed": known_lines,
            "known_findings_not_reproduced": stale_known,
            "generator_degraded": degraded,
        },
        "assumptions": p.assumptions,
        "wall_s": wall,
        "violations": violations.len(),
    });
    let evdir = format!("{}/evidence", verif_dir());
    let _ = std::fs::create_dir_all(&evdir);
    let evpath = format!("{}/{}.json", evdir, p.id);
    std::fs::write(&evpath, serde_json::to_string_pretty(&ev).unwrap()).expect("write evidence");

    for l in &known_lines {
        println!("{}", l);
    }
    for s in &stale_known {
        println!("NOTE: known finding property={} signature={} did not reproduce in this run (candidate for a 'fixed:' line)", p.id, s);
    }
    if !harness_errors.is_empty() {
        for e in &harness_errors {
            println!("INCONCLUSIVE property={} harness error: {}", p.id, e);
        }
        return 2;
    }
    if !violations.is_empty() {
        for (v, path) in violations.iter().zip(replay_paths.iter()) {
            println!("VIOLATION property={} replay={}", p.id, path);
            println!("  section={} signature={}", v.section, v.signature);
            let d = serde_json::to_string_pretty(&v.detail).unwrap();
            for l in d.lines().take(60) {
                println!("  {}", l);
            }
        }
        return 1;
    }
    if !degraded.is_empty() {
        for d in &degraded {
            println!("INCONCLUSIVE property={} generator degraded: {}", p.id, d);
        }
        return 2;
    }
    println!(
        "OK property={} tier={:?} seed={} evaluations={} distinct_nontrivial={} wall={:.1}s",
        p.id,
        tier,
        seed,
        total.evaluations,
        total.nontrivial.len(),
        wall
    );
    0
}

/// One libFuzzer iteration: runs the case for `tape`; a violation that is not a listed known finding panics (so the
/// fuzzer saves the input), known findings and discards are tolerated so that the campaign continues behind them.
pub fn fuzz_one(p: &Property, section: &str, tape: &[u32]) {
    let sec = match p.sections.iter().find(|s| s.name == section) {
        Some(s) => s,
        None => panic!("unknown section {}", section),
    };
    thread_local! {
        static KNOWN: Known = Known::load();
    }
    let mut st = Stats::default();
    let outcome = KNOWN.with(|k| run_case(p.id, sec.name, sec.case, tape, &mut st, k, false));
    match outcome {
        CaseOutcome::Ok => {}
        CaseOutcome::Violation(f) => panic!("VIOLATION property={} section={} signature={} detail={}", p.id, section, f.signature, f.detail),
        CaseOutcome::HarnessError(e) => panic!("HARNESS ERROR: {}", e),
    }
}

pub fn replay(p: &Property, section: &str, tape: &[u32]) -> i32 {
    let known = Known::load();
    let sec = match p.sections.iter().find(|s| s.name == section) {
        Some(s) => s,
        None => {
            println!("unknown section {}", section);
            return 2;
        }
    };
    let case = sec.case;
    let tape = tape.to_vec();
    let id = p.id;
    start_watchdog(id, 60);
    let h = std::thread::Builder::new()
        .stack_size(STACK)
        .spawn(move || {
            let mut st = Stats::default();
            match run_case(id, "replay", case, &tape, &mut st, &known, true) {
                CaseOutcome::Ok => {
                    println!("replay: property {} held on this case", id);
                    0
                }
                CaseOutcome::Violation(f) => {
                    println!("VIOLATION property={} replay=<this file>", id);
                    println!("  signature={}", f.signature);
                    println!("{}", serde_json::to_string_pretty(&f.detail).unwrap());
                    1
                }
                CaseOutcome::HarnessError(e) => {
                    println!("INCONCLUSIVE harness error: {}", e);
                    2
                }
            }
        })
        .unwrap();
    h.join().unwrap_or(2)
}
