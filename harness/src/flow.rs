//! Structured programs (if/elseif/else, while, for-in, functions): AST, generator, renderer and the
//! tree-walking reference interpreter shared by C04, C05, C10 and C13.

use crate::engine::{Stats, Tape};
use crate::props::c06::{eval_ref, truthy, Tok};
use std::collections::{HashMap, HashSet};

#[derive(Clone, Debug, PartialEq, Eq, Hash)]
pub enum Expr {
    Lit(String),
    Var(String),
}

#[derive(Clone, Debug, PartialEq, Eq, Hash)]
pub enum CTok {
    Atom(Expr),
    And,
    Or,
    Open,
    Close,
}

#[derive(Clone, Debug, PartialEq, Eq, Hash)]
pub enum Cond {
    Value(Expr),
    Bool(Vec<CTok>),
    /// neg=false: `tick k n` (true n times, then false); neg=true: `not tock k n` (tock: false n times, then true)
    Tick { neg: bool, key: String, n: u32 },
    Call { f: usize, args: Vec<Expr> },
    /// `[not] cap cap:<id> <args>`: the harness capture command (answers true) in condition position; what it
    /// receives is part of the trace
    Probe { neg: bool, id: u32, args: Vec<String> },
}

#[derive(Clone, Debug, PartialEq, Eq, Hash)]
pub enum FailKind {
    /// trigger_error msg
    Trigger(String),
    /// a library command failing on its own: (command line text, args) e.g. array_get on a bad handle
    Library(String),
}

#[derive(Clone, Debug, PartialEq, Eq, Hash)]
pub enum Stmt {
    Emit(u32, Vec<Expr>),
    Assign(String, Expr),
    AssignTick(String, String, u32),
    If(Vec<(Cond, Vec<Stmt>)>, Option<Vec<Stmt>>),
    While(Cond, Vec<Stmt>),
    ForIn(String, Expr, Vec<Stmt>),
    Call { out: Option<String>, f: usize, args: Vec<Expr> },
    Return(Option<Expr>),
    /// C10: a failing command with optional output variable, followed by probe lines
    Fail { out: Option<String>, kind: FailKind, id: u32 },
    /// C10: exit_on_error true/false
    ExitOnError(bool),
    /// C10: `set_error msg` - replaces the stored last error without triggering the error flow
    SetError(String),
    /// `zzlib = uname` / `zzlib = array_join ${arr0} -`: a script-implemented command that calls another one; its
    /// output is not compared
    Lib(u8),
    /// `goto :brk<id>`: leaves the enclosing for-in loop(s) of a function body for the label placed after the loop
    Break(u32),
    /// `:brk<id>` on a line of its own
    Label(u32),
}

#[derive(Clone, Debug, PartialEq, Eq, Hash)]
pub struct FnDef {
    pub name: String,
    pub scoped: bool,
    pub arity: usize,
    pub body: Vec<Stmt>,
}

#[derive(Clone, Debug, PartialEq, Eq, Hash)]
pub struct Program {
    pub arrays: Vec<Vec<String>>,
    pub fns: Vec<FnDef>,
    pub main: Vec<Stmt>,
}

pub const WORDS: &[&str] = &["a", "b", "true", "false", "0", "1", "no", "yes", "x1", "", "k", "NO", "False", "zz", "00", "0.0", "-0"];
/// argument values of condition-position calls (every word of them is checked not to be a command name)
pub const COND_CALL_WORDS: &[&str] = &["p m", "a b k", "k a", "x1 b", "a", "x ", " y", " ", " 0", "no ", "true", "0", "x1", "k", "b"];
pub const VARS: &[&str] = &["v", "w", "u", "x", "y", "q"];

#[derive(Clone, Copy)]
pub struct GenCfg {
    /// function bodies may start with a for-in loop that is left by goto (a 'break') from inside a branch
    pub breaks: bool,
    pub functions: bool,
    pub failures: bool,
    pub max_depth: usize,
    pub max_stmts: usize,
    /// while loops that run for tens to hundreds of iterations (the others run 0..3 times)
    pub long_loops: bool,
    /// if / elseif conditions of command form whose command records the argument values it receives
    pub probe_conditions: bool,
    /// statements that call a script-implemented library command which itself calls another one (uname, array_join)
    pub lib_calls: bool,
}

struct G<'a, 'b> {
    t: &'a mut Tape<'b>,
    cfg: GenCfg,
    next_emit: u32,
    next_key: u32,
    budget: usize,
    n_arrays: usize,
    fns: Vec<(bool, usize)>, // (scoped, arity) of functions callable so far
    pred_fn: Option<usize>,
    current_fn: Option<usize>,
    /// arguments of the latest condition-position call of each function
    last_cond_args: HashMap<usize, Vec<String>>,
}

impl<'a, 'b> G<'a, 'b> {
    fn key(&mut self) -> String {
        self.next_key += 1;
        format!("k{}", self.next_key)
    }
    fn word(&mut self) -> String {
        self.t.pick(WORDS).to_string()
    }
    fn var(&mut self) -> String {
        self.t.pick(VARS).to_string()
    }
    fn expr(&mut self, in_fn: Option<usize>) -> Expr {
        match self.t.weighted(&[3, 4, 2]) {
            0 => Expr::Lit(self.word()),
            1 => Expr::Var(self.var()),
            _ => match in_fn {
                Some(ar) if ar > 0 => Expr::Var((1 + self.t.below(ar)).to_string()),
                _ => Expr::Var(self.var()),
            },
        }
    }
    fn plain_expr(&mut self) -> Expr {
        // for condition-position call arguments: plain words, also padded with blanks or made of a blank only
        // (values outside the C09 known classes: they reach the function unchanged)
        Expr::Lit(self.t.pick(COND_CALL_WORDS).to_string())
    }
    fn cond(&mut self, in_fn: Option<usize>, for_while: bool) -> Cond {
        if !for_while && self.cfg.probe_conditions && self.t.chance(1, 8) {
            let id = self.next_emit;
            self.next_emit += 1;
            let n = 1 + self.t.below(3);
            let args = (0..n).map(|_| self.t.pick(&["a", "x ", " y", " ", "p q", " 0", "no ", "", "b", "  z  "]).to_string()).collect();
            return Cond::Probe { neg: self.t.flip(), id, args };
        }
        let w: [u32; 4] = if for_while { [0, 0, 6, if self.pred_fn.is_some() { 2 } else { 0 }] } else { [3, 3, 3, if self.cfg.functions && !self.fns.is_empty() { 2 } else { 0 }] };
        match self.t.weighted(&w) {
            0 => Cond::Value(self.expr(in_fn)),
            1 => {
                let mut toks = vec![];
                self.bool_expr(in_fn, 0, &mut toks);
                // the first token must not be a bare word that could name a command: atoms are variables or safe words
                Cond::Bool(toks)
            }
            2 => {
                let key = self.key();
                let n = if self.cfg.long_loops && for_while && self.t.chance(1, 2) { 20 + self.t.below(230) as u32 } else { self.t.below(4) as u32 };
                Cond::Tick { neg: self.t.flip(), key, n }
            }
            _ => {
                if for_while {
                    Cond::Call { f: self.pred_fn.unwrap(), args: vec![] }
                } else {
                    let f = self.t.below(self.fns.len());
                    let ar = self.fns[f].1;
                    let mut args: Vec<Expr> = (0..ar).map(|_| self.plain_expr()).collect();
                    if ar >= 2 && self.t.flip() {
                        args = (0..ar).map(|_| Expr::Lit(self.t.pick(COND_CALL_WORDS).to_string())).collect();
                    }
                    // sometimes the same words as in the previous condition-position call of this function, cut into
                    // arguments at other places (each call gets the arguments written for it)
                    if ar >= 2 && self.t.flip() {
                        if let Some(prev) = self.last_cond_args.get(&f).cloned() {
                            let words: Vec<&str> = prev.iter().flat_map(|a| a.split(' ')).filter(|w| !w.is_empty()).collect();
                            if words.len() > ar {
                                let mut cuts: Vec<usize> = (0..ar - 1).map(|_| 1 + self.t.below(words.len() - 1)).collect();
                                cuts.sort();
                                cuts.dedup();
                                if cuts.len() == ar - 1 {
                                    let mut out = vec![];
                                    let mut at = 0;
                                    for c in cuts {
                                        out.push(words[at..c].join(" "));
                                        at = c;
                                    }
                                    out.push(words[at..].join(" "));
                                    if out != prev {
                                        args = out.into_iter().map(Expr::Lit).collect();
                                    }
                                }
                            }
                        }
                    }
                    let lits: Vec<String> = args.iter().map(|a| if let Expr::Lit(s) = a { s.clone() } else { String::new() }).collect();
                    self.last_cond_args.insert(f, lits);
                    Cond::Call { f, args }
                }
            }
        }
    }
    fn bool_expr(&mut self, in_fn: Option<usize>, depth: usize, out: &mut Vec<CTok>) {
        let n = 1 + self.t.len(3);
        for i in 0..n {
            if i > 0 {
                out.push(if self.t.flip() { CTok::And } else { CTok::Or });
            }
            if depth < 2 && self.t.chance(1, 4) {
                out.push(CTok::Open);
                if !self.t.chance(1, 8) {
                    self.bool_expr(in_fn, depth + 1, out);
                }
                out.push(CTok::Close);
            } else {
                out.push(CTok::Atom(self.expr(in_fn)));
            }
        }
    }
    fn block(&mut self, depth: usize, in_fn: Option<usize>, in_loop: bool) -> Vec<Stmt> {
        self.block_min(depth, in_fn, in_loop, 0)
    }
    fn block_min(&mut self, depth: usize, in_fn: Option<usize>, in_loop: bool, min: usize) -> Vec<Stmt> {
        let n = min + self.t.len(4);
        let mut v = vec![];
        for _ in 0..n {
            if self.budget == 0 {
                break;
            }
            self.budget -= 1;
            let s = self.stmt(depth, in_fn, in_loop);
            let is_ret = matches!(s, Stmt::Return(_));
            v.push(s);
            if is_ret {
                break;
            }
        }
        v
    }
    fn emit(&mut self, in_fn: Option<usize>) -> Stmt {
        self.next_emit += 1;
        let n = self.t.len(3);
        let args = (0..n).map(|_| self.expr(in_fn)).collect();
        Stmt::Emit(self.next_emit, args)
    }
    fn stmt(&mut self, depth: usize, in_fn: Option<usize>, in_loop: bool) -> Stmt {
        let deep = depth >= self.cfg.max_depth;
        let can_call = self.cfg.functions && !self.fns.is_empty();
        let w: [u32; 9] = [
            6,
            3,
            1,
            if deep { 0 } else { 4 },
            if deep { 0 } else { 3 },
            if deep || self.n_arrays == 0 && in_fn.map(|a| a == 0).unwrap_or(true) { 0 } else { 3 },
            if can_call { 4 } else { 0 },
            if in_fn.is_some() { if depth > 1 { 4 } else { 1 } } else { 0 },
            if self.cfg.failures { 3 } else { 0 },
        ];
        // guarded self-recursion inside a function body
        if let (Some(_), Some(me)) = (in_fn, self.current_fn) {
            if !deep && self.t.chance(1, 12) {
                let key = self.key();
                let n = 1 + self.t.below(2) as u32;
                let ar = self.fns[me].1;
                let args: Vec<Expr> = (0..ar).map(|_| self.expr(in_fn)).collect();
                let out = if self.t.chance(1, 3) { Some("rr".to_string()) } else { None };
                // the recursive call sits in a taken branch of a block that may have further branches
                let call = Stmt::Call { out, f: me, args };
                return match self.t.below(3) {
                    0 => Stmt::If(vec![(Cond::Tick { neg: false, key, n }, vec![call])], None),
                    1 => {
                        let e = self.emit(in_fn);
                        let e2 = self.emit(in_fn);
                        Stmt::If(vec![(Cond::Tick { neg: false, key, n }, vec![call, e2])], Some(vec![e]))
                    }
                    _ => {
                        let e = self.emit(in_fn);
                        let e2 = self.emit(in_fn);
                        Stmt::If(vec![(Cond::Tick { neg: false, key, n }, vec![call]), (Cond::Value(Expr::Lit("true".into())), vec![e])], Some(vec![e2]))
                    }
                };
            }
        }
        if self.cfg.lib_calls && self.t.chance(1, 10) {
            return Stmt::Lib(if self.n_arrays > 0 && in_fn.is_none() { self.t.below(2) as u8 } else { 0 });
        }
        match self.t.weighted(&w) {
            0 => self.emit(in_fn),
            1 => Stmt::Assign(self.var(), self.expr(in_fn)),
            2 => {
                let k = self.key();
                Stmt::AssignTick(self.var(), k, self.t.below(3) as u32)
            }
            3 => {
                let nb = 1 + self.t.len(2);
                let mut branches = vec![];
                for _ in 0..nb {
                    let c = self.cond(in_fn, false);
                    let b = self.block(depth + 1, in_fn, in_loop);
                    branches.push((c, b));
                }
                let els = if self.t.flip() { Some(self.block(depth + 1, in_fn, in_loop)) } else { None };
                Stmt::If(branches, els)
            }
            4 => {
                let c = self.cond(in_fn, true);
                let b = self.block(depth + 1, in_fn, true);
                Stmt::While(c, b)
            }
            5 => {
                // array source: a global array variable (not visible in scoped functions) or, inside a function, an argument
                let src = match in_fn {
                    Some(ar) if ar > 0 && (self.n_arrays == 0 || self.t.flip()) => Expr::Var((1 + self.t.below(ar)).to_string()),
                    _ => Expr::Var(format!("arr{}", self.t.below(self.n_arrays.max(1)))),
                };
                let v = self.t.pick(&["i", "j", "x"]).to_string();
                let b = self.block(depth + 1, in_fn, true);
                Stmt::ForIn(v, src, b)
            }
            6 => {
                // inside a function only earlier functions are called here; self-recursion uses the guarded form above
                let limit = match self.current_fn {
                    Some(me) => me,
                    None => self.fns.len(),
                };
                if limit == 0 {
                    return self.emit(in_fn);
                }
                let f = self.t.below(limit);
                let ar = self.fns[f].1;
                let args: Vec<Expr> = (0..ar)
                    .map(|_| {
                        if self.n_arrays > 0 && self.t.chance(1, 3) {
                            Expr::Var(format!("arr{}", self.t.below(self.n_arrays)))
                        } else {
                            self.expr(in_fn)
                        }
                    })
                    .collect();
                let out = if self.t.flip() {
                    Some(if in_fn.is_some() { format!("o{}", self.t.below(3)) } else { self.t.pick(&["r", "s"]).to_string() })
                } else {
                    None
                };
                Stmt::Call { out, f, args }
            }
            7 => Stmt::Return(if self.t.chance(2, 3) { Some(self.expr(in_fn)) } else { None }),
            _ => {
                self.next_emit += 1;
                let id = self.next_emit;
                if self.t.chance(1, 8) {
                    Stmt::ExitOnError(self.t.chance(1, 3))
                } else if self.t.chance(1, 4) {
                    Stmt::SetError(self.t.pick(&["noted", "manual error text", "x"]).to_string())
                } else {
                    let out = if self.t.flip() { Some(self.t.pick(&["e", "v"]).to_string()) } else { None };
                    let kind = if self.t.flip() {
                        FailKind::Trigger(self.t.pick(&["boom", "bad thing happened", "x", "cost ${v}", "50% off", "a#b"]).to_string())
                    } else {
                        FailKind::Library(self.t.pick(&["array_get nohandle 0", "array_pop nohandle", "substring abc 9", "map_get", "array_length nohandle", "calc", "array_join nohandle ,", "assert_error planted-assert-error", "assert_error"]).to_string())
                    };
                    Stmt::Fail { out, kind, id }
                }
            }
        }
    }
}

pub fn gen_program(t: &mut Tape, cfg: GenCfg) -> Program {
    let n_arrays = t.len(3);
    let mut arrays = vec![];
    for _ in 0..n_arrays {
        let n = t.len(4);
        let mut a = vec![];
        for _ in 0..n {
            let w = t.pick(WORDS);
            a.push(if w.is_empty() { "e".to_string() } else { w.to_string() });
        }
        arrays.push(a);
    }
    let mut g = G { t, cfg, next_emit: 0, next_key: 0, budget: cfg.max_stmts, n_arrays, fns: vec![], pred_fn: None, current_fn: None, last_cond_args: HashMap::new() };
    let mut fns = vec![];
    if cfg.functions {
        let nf = 1 + g.t.len(3);
        for i in 0..nf {
            let scoped = g.t.chance(1, 3);
            let arity = g.t.below(3);
            // a function may call itself (recursion) and earlier functions
            g.fns.push((scoped, arity));
            g.current_fn = Some(i);
            g.budget = 6 + cfg.max_stmts / 3;
            let mut body = g.block_min(1, Some(arity), false, 2);
            if cfg.breaks && (arity > 0 || (!scoped && n_arrays > 0)) && g.t.chance(1, 3) {
                // the only way to 'break': a goto from inside the loop to a label right after it. The call then ends by
                // reaching the end of the body or by a return further down; a later call starts afresh all the same
                let src = if arity > 0 && (scoped || n_arrays == 0 || g.t.flip()) { Expr::Var((1 + g.t.below(arity)).to_string()) } else { Expr::Var(format!("arr{}", g.t.below(n_arrays))) };
                let v = g.t.pick(&["i", "j", "x"]).to_string();
                let c = if g.t.flip() { Cond::Value(Expr::Var(v.clone())) } else { g.cond(Some(arity), false) };
                let mut inner = vec![];
                if g.t.flip() {
                    inner.push(g.emit(Some(arity)));
                }
                inner.push(Stmt::Break(i as u32));
                let mut lb = vec![g.emit(Some(arity)), Stmt::If(vec![(c, inner)], None)];
                if g.t.flip() {
                    lb.push(g.emit(Some(arity)));
                }
                body.insert(0, Stmt::ForIn(v, src, lb));
                body.insert(1, Stmt::Label(i as u32));
            }
            fns.push(FnDef { name: format!("f{}", i), scoped, arity, body });
        }
        g.current_fn = None;
        if g.t.chance(1, 3) {
            // a predicate function usable as a while condition
            let key = g.key();
            let n = g.t.below(3) as u32;
            let mut body = vec![];
            if g.t.flip() {
                body.push(g.emit(Some(0)));
            }
            body.push(Stmt::AssignTick("pr".into(), key, n));
            body.push(Stmt::Return(Some(Expr::Var("pr".into()))));
            g.fns.push((false, 0));
            g.pred_fn = Some(fns.len());
            fns.push(FnDef { name: format!("f{}", fns.len()), scoped: false, arity: 0, body });
        }
    }
    g.budget = cfg.max_stmts;
    let mut main = g.block_min(0, None, false, if cfg.functions { 1 } else { 0 });
    if cfg.functions && !g.fns.is_empty() {
        // every program calls some functions repeatedly
        let calls = 1 + g.t.len(4);
        for _ in 0..calls {
            let f = g.t.below(g.fns.len());
            let ar = g.fns[f].1;
            let args: Vec<Expr> = (0..ar)
                .map(|_| if g.n_arrays > 0 && g.t.flip() { Expr::Var(format!("arr{}", g.t.below(g.n_arrays))) } else { g.expr(None) })
                .collect();
            let out = if g.t.flip() { Some(g.t.pick(&["r", "s", "v"]).to_string()) } else { None };
            main.push(Stmt::Call { out, f, args });
            if g.t.flip() {
                let e = g.emit(None);
                main.push(e);
            }
        }
    }
    // make sure there is something to see
    main.push(g.emit(None));
    Program { arrays, fns, main }
}

// -------------------------------------------------------------------------------------------------
// rendering
// -------------------------------------------------------------------------------------------------

pub struct Spell;
impl Spell {
    pub const IF: &'static [&'static str] = &["if", "std::flowcontrol::If"];
    pub const ELSEIF: &'static [&'static str] = &["elseif", "elif", "std::flowcontrol::ElseIf"];
    pub const ELSE: &'static [&'static str] = &["else", "std::flowcontrol::Else"];
    pub const ENDIF: &'static [&'static str] = &["end", "end_if", "endif", "fi", "std::flowcontrol::EndIf"];
    pub const WHILE: &'static [&'static str] = &["while", "std::flowcontrol::While"];
    pub const ENDWHILE: &'static [&'static str] = &["end", "end_while", "endwhile", "std::flowcontrol::EndWhile"];
    pub const FOR: &'static [&'static str] = &["for", "std::flowcontrol::ForIn"];
    pub const ENDFOR: &'static [&'static str] = &["end", "end_for", "std::flowcontrol::EndForIn"];
    pub const FN: &'static [&'static str] = &["fn", "function", "std::flowcontrol::Function"];
    pub const ENDFN: &'static [&'static str] = &["end", "end_fn", "end_function", "std::flowcontrol::EndFunction"];
    pub const RETURN: &'static [&'static str] = &["return", "std::flowcontrol::Return"];
}

/// Checks the spelling table against the live registry; returns an error text on mismatch.
pub fn check_spellings(commands: &duckscript::types::command::Commands) -> Result<(), String> {
    let groups: &[(&[&str], &str)] = &[
        (Spell::IF, "std::flowcontrol::If"),
        (Spell::ELSEIF, "std::flowcontrol::ElseIf"),
        (Spell::ELSE, "std::flowcontrol::Else"),
        (&Spell::ENDIF[1..], "std::flowcontrol::EndIf"),
        (Spell::WHILE, "std::flowcontrol::While"),
        (&Spell::ENDWHILE[1..], "std::flowcontrol::EndWhile"),
        (Spell::FOR, "std::flowcontrol::ForIn"),
        (&Spell::ENDFOR[1..], "std::flowcontrol::EndForIn"),
        (Spell::FN, "std::flowcontrol::Function"),
        (&Spell::ENDFN[1..], "std::flowcontrol::EndFunction"),
        (Spell::RETURN, "std::flowcontrol::Return"),
        (&["end"], "end"),
    ];
    for (names, canon) in groups {
        for n in *names {
            match commands.get(n) {
                Some(c) if c.name() == *canon => {}
                Some(c) => return Err(format!("spelling {} resolves to {} (expected {})", n, c.name(), canon)),
                None => return Err(format!("spelling {} is not registered", n)),
            }
        }
    }
    for w in COND_CALL_WORDS.iter().flat_map(|v| v.split(' ')).filter(|w| !w.is_empty()) {
        if commands.exists(w) {
            return Err(format!("word {} of the condition-call values is a registered command name", w));
        }
    }
    for w in WORDS {
        if commands.exists(w) {
            return Err(format!("value word {:?} is a command name", w));
        }
    }
    Ok(())
}

#[derive(Default)]
pub struct RenderStats {
    pub canonical_keyword: bool,
    pub specific_end: bool,
    pub generic_end: bool,
    pub lines: usize,
    pub exit_on_error_other_spelling: bool,
}

pub struct Renderer<'a, 'b> {
    pub t: &'a mut Tape<'b>,
    pub out: String,
    pub rs: RenderStats,
    pub fancy: bool,
    /// (emit/fail id) -> 1-based line number
    pub line_of: HashMap<u32, usize>,
    /// probe style for C10
    pub probes: bool,
    /// which file is being rendered (0 = main, 1 = included library) and the file of every emit/fail id
    pub file: u8,
    pub file_of: HashMap<u32, u8>,
}

pub fn render_expr(e: &Expr) -> String {
    match e {
        Expr::Lit(s) if s.is_empty() => "\"\"".to_string(),
        Expr::Lit(s) if s.contains(' ') || s.contains('#') => format!("\"{}\"", s.replace('\\', "\\\\").replace('"', "\\\"")),
        Expr::Lit(s) => s.clone(),
        Expr::Var(n) => format!("${{{}}}", n),
    }
}

impl<'a, 'b> Renderer<'a, 'b> {
    fn kw(&mut self, alts: &[&str]) -> String {
        let i = if self.fancy { self.t.below(alts.len()) } else { 0 };
        let s = alts[i];
        if s.contains("::") {
            self.rs.canonical_keyword = true;
        }
        if s == "end" {
            self.rs.generic_end = true;
        } else if alts[0] == "end" {
            self.rs.specific_end = true;
        }
        s.to_string()
    }
    fn line(&mut self, depth: usize, text: &str) {
        if self.fancy && self.t.chance(1, 10) {
            self.out.push('\n');
            self.rs.lines += 1;
        }
        if self.fancy && self.t.chance(1, 12) {
            self.out.push_str("# a comment line with end / fi / else words\n");
            self.rs.lines += 1;
        }
        let ind = if self.fancy { self.t.below(3) * 2 } else { depth * 4 };
        self.out.push_str(&" ".repeat(ind));
        self.out.push_str(text);
        self.out.push('\n');
        self.rs.lines += 1;
    }
    pub fn cond(&self, c: &Cond, fns: &[FnDef]) -> String {
        match c {
            Cond::Value(e) => render_expr(e),
            Cond::Bool(toks) => toks
                .iter()
                .map(|t| match t {
                    CTok::Atom(e) => render_expr(e),
                    CTok::And => "and".to_string(),
                    CTok::Or => "or".to_string(),
                    CTok::Open => "(".to_string(),
                    CTok::Close => ")".to_string(),
                })
                .collect::<Vec<_>>()
                .join(" "),
            Cond::Tick { neg: false, key, n } => format!("tick {} {}", key, n),
            Cond::Tick { neg: true, key, n } => format!("not tock {} {}", key, n),
            Cond::Probe { neg, id, args } => {
                let mut s = format!("{}cap cap:{}", if *neg { "not " } else { "" }, id);
                for a in args {
                    s.push(' ');
                    s.push_str(&render_expr(&Expr::Lit(a.clone())));
                }
                s
            }
            Cond::Call { f, args } => {
                let mut s = fns[*f].name.clone();
                for a in args {
                    s.push(' ');
                    s.push_str(&render_expr(a));
                }
                s
            }
        }
    }
    pub fn block(&mut self, stmts: &[Stmt], depth: usize, fns: &[FnDef]) {
        for s in stmts {
            match s {
                Stmt::Emit(id, args) => {
                    let mut l = format!("emit {}", id);
                    for a in args {
                        l.push(' ');
                        l.push_str(&render_expr(a));
                    }
                    self.line(depth, &l);
                    self.line_of.insert(*id, self.rs.lines);
                    self.file_of.insert(*id, self.file);
                }
                Stmt::Assign(v, e) => {
                    let l = format!("{} = set {}", v, render_expr(e));
                    self.line(depth, &l)
                }
                Stmt::AssignTick(v, k, n) => {
                    let l = format!("{} = tick {} {}", v, k, n);
                    self.line(depth, &l)
                }
                Stmt::If(branches, els) => {
                    for (i, (c, b)) in branches.iter().enumerate() {
                        let k = if i == 0 { self.kw(Spell::IF) } else { self.kw(Spell::ELSEIF) };
                        let l = format!("{} {}", k, self.cond(c, fns));
                        self.line(depth, &l);
                        self.block(b, depth + 1, fns);
                    }
                    if let Some(b) = els {
                        let k = self.kw(Spell::ELSE);
                        self.line(depth, &k);
                        self.block(b, depth + 1, fns);
                    }
                    let k = self.kw(Spell::ENDIF);
                    self.line(depth, &k);
                }
                Stmt::While(c, b) => {
                    let k = self.kw(Spell::WHILE);
                    let l = format!("{} {}", k, self.cond(c, fns));
                    self.line(depth, &l);
                    self.block(b, depth + 1, fns);
                    let k = self.kw(Spell::ENDWHILE);
                    self.line(depth, &k);
                }
                Stmt::ForIn(v, src, b) => {
                    let k = self.kw(Spell::FOR);
                    let l = format!("{} {} in {}", k, v, render_expr(src));
                    self.line(depth, &l);
                    self.block(b, depth + 1, fns);
                    let k = self.kw(Spell::ENDFOR);
                    self.line(depth, &k);
                }
                Stmt::Call { out, f, args } => {
                    let mut l = String::new();
                    if let Some(o) = out {
                        l.push_str(o);
                        l.push_str(" = ");
                    }
                    l.push_str(&fns[*f].name);
                    for a in args {
                        l.push(' ');
                        l.push_str(&render_expr(a));
                    }
                    self.line(depth, &l);
                }
                Stmt::Break(id) => {
                    let l = format!("goto :brk{}", id);
                    self.line(depth, &l);
                }
                Stmt::Label(id) => {
                    let l = format!(":brk{}", id);
                    self.line(depth, &l);
                }
                Stmt::Return(e) => {
                    let k = self.kw(Spell::RETURN);
                    let l = match e {
                        Some(e) => format!("{} {}", k, render_expr(e)),
                        None => k,
                    };
                    self.line(depth, &l);
                }
                Stmt::Fail { out, kind, id } => {
                    let mut l = String::new();
                    if let Some(o) = out {
                        l.push_str(o);
                        l.push_str(" = ");
                    }
                    match kind {
                        FailKind::Trigger(m) => {
                            l.push_str("trigger_error ");
                            // the message is written so that it reaches the command verbatim
                            let esc = m.replace('\\', "\\\\").replace('"', "\\\"").replace("${", "\\${");
                            l.push_str(&format!("\"{}\"", esc));
                        }
                        FailKind::Library(c) => l.push_str(c),
                    }
                    self.line(depth, &l);
                    self.line_of.insert(*id, self.rs.lines);
                    self.file_of.insert(*id, self.file);
                    if self.probes {
                        self.line(depth, "pe = get_last_error");
                        self.line(depth, "pl = get_last_error_line");
                        self.line(depth, "ps = get_last_error_source");
                        let ov = match out {
                            Some(o) => format!("${{{}}}", o),
                            None => "-".to_string(),
                        };
                        let l = format!("emit {} probe ${{pe}} ${{pl}} ${{ps}} {}", id, ov);
                        self.line(depth, &l);
                    }
                }
                Stmt::Lib(k) => {
                    let l = if *k == 0 { "zzlib = uname".to_string() } else { "zzlib = array_join ${arr0} -".to_string() };
                    self.line(depth, &l);
                }
                Stmt::SetError(m) => {
                    let l = format!("set_error {}", render_expr(&Expr::Lit(m.clone())));
                    self.line(depth, &l);
                }
                Stmt::ExitOnError(b) => {
                    // the state is the truthiness of the argument (one rule, C06): any spelling of it
                    let v = if *b { *self.t.pick_ref(&["true", "true", "1", "yes", "TRUE", "on", "enabled"]) } else { *self.t.pick_ref(&["false", "false", "0", "no", "FALSE", "No", "\"\"", "${never_defined_zz}"]) };
                    if v != "true" && v != "false" {
                        self.rs.exit_on_error_other_spelling = true;
                    }
                    let l = format!("exit_on_error {}", v);
                    self.line(depth, &l);
                }
            }
        }
    }
}

pub struct Rendered {
    pub text: String,
    pub rs: RenderStats,
    pub line_of: HashMap<u32, usize>,
}

pub fn render(p: &Program, t: &mut Tape, probes: bool) -> Rendered {
    let fancy = t.chance(2, 3);
    let mut r = Renderer { t, out: String::new(), rs: RenderStats::default(), fancy, line_of: HashMap::new(), probes, file: 0, file_of: HashMap::new() };
    for (i, a) in p.arrays.iter().enumerate() {
        let l = format!("arr{} = array {}", i, a.join(" "));
        r.line(0, l.trim_end());
        // tells the harness which handle stands for this array (filtered from the compared trace)
        r.line(0, &format!("emit 0 @arr{} ${{arr{}}}", i, i));
    }
    for f in &p.fns {
        let k = r.kw(Spell::FN);
        let l = if f.scoped { format!("{} <scope> {}", k, f.name) } else { format!("{} {}", k, f.name) };
        r.line(0, &l);
        r.block(&f.body, 1, &p.fns);
        let k = r.kw(Spell::ENDFN);
        r.line(0, &k);
    }
    r.block(&p.main, 0, &p.fns);
    Rendered { text: r.out, rs: r.rs, line_of: r.line_of }
}

pub struct RenderedSplit {
    pub rs: RenderStats,
    pub main: String,
    pub lib: String,
    pub line_of: HashMap<u32, usize>,
    pub file_of: HashMap<u32, u8>,
}

/// Renders the function definitions into a library file that the main file includes at its first line.
pub fn render_split(p: &Program, t: &mut Tape, probes: bool, include_line: &str) -> RenderedSplit {
    let fancy = t.chance(2, 3);
    let mut r = Renderer { t, out: String::new(), rs: RenderStats::default(), fancy, line_of: HashMap::new(), probes, file: 1, file_of: HashMap::new() };
    for f in &p.fns {
        let k = r.kw(Spell::FN);
        let l = if f.scoped { format!("{} <scope> {}", k, f.name) } else { format!("{} {}", k, f.name) };
        r.line(0, &l);
        r.block(&f.body, 1, &p.fns);
        let k = r.kw(Spell::ENDFN);
        r.line(0, &k);
    }
    let lib = std::mem::take(&mut r.out);
    r.rs.lines = 0;
    r.file = 0;
    for (i, a) in p.arrays.iter().enumerate() {
        let l = format!("arr{} = array {}", i, a.join(" "));
        r.line(0, l.trim_end());
        r.line(0, &format!("emit 0 @arr{} ${{arr{}}}", i, i));
    }
    r.out.push_str(include_line);
    r.out.push('\n');
    r.rs.lines += 1;
    r.block(&p.main, 0, &p.fns);
    RenderedSplit { rs: r.rs, main: r.out, lib, line_of: r.line_of, file_of: r.file_of }
}

// -------------------------------------------------------------------------------------------------
// the tree-walking reference interpreter
// -------------------------------------------------------------------------------------------------

#[derive(Debug, PartialEq)]
pub enum Stop {
    Steps,
    /// the program reached a corner the property leaves unconstrained
    Unconstrained(&'static str),
    /// exit_on_error ended the run at this failing statement id
    Fatal(u32),
}

enum Flow {
    Normal,
    Return(Option<String>),
    Break(u32),
}

#[derive(Clone, Debug, PartialEq)]
pub struct Emitted {
    pub id: u32,
    pub args: Vec<String>,
}

pub struct Model<'p> {
    pub p: &'p Program,
    pub vars: HashMap<String, String>,
    pub ticks: HashMap<String, u32>,
    pub tocks: HashMap<String, u32>,
    pub trace: Vec<Emitted>,
    pub steps: usize,
    pub max_steps: usize,
    pub tainted: HashSet<String>,
    /// output variables of active non-scoped calls (up to the nearest scoped boundary)
    pending_out: Vec<String>,
    /// >0 while executing inside a call made from condition position
    nested: usize,
    pub depth: usize,
    pub max_depth_seen: usize,
    pub classes: HashSet<&'static str>,
    pub block_runs: HashMap<usize, u32>,
    /// loops (while / for-in) currently being executed around the current statement
    pub loop_nest: usize,
    /// calls deeper than this end the case as 'step bound exceeded'
    pub max_call_depth: usize,
    /// arguments of the latest executed condition-position call of each function
    pub cond_call_args: HashMap<usize, Vec<String>>,
    pub exit_on_error: bool,
    /// C10: failures observed: id -> (message is known?, message)
    pub failures: Vec<u32>,
    pub last_error: Option<(String, u32)>,
    pub fn_calls: HashMap<usize, u32>,
    pub early_returns: u32,
    pub call_stack: Vec<usize>,
    pub script_source: String,
    /// source file per statement id (when the program is split over files); default: script_source
    pub source_of: HashMap<u32, String>,
    pub line_of: HashMap<u32, usize>,
    pub lib_messages: HashMap<String, String>,
}

pub fn tock_step(tocks: &mut HashMap<String, u32>, key: &str, n: u32) -> bool {
    // false n times, then true once (and re-arms)
    let e = tocks.entry(key.to_string()).or_insert(0);
    if *e < n {
        *e += 1;
        false
    } else {
        *e = 0;
        true
    }
}

impl<'p> Model<'p> {
    pub fn new(p: &'p Program, max_steps: usize) -> Model<'p> {
        let mut vars = HashMap::new();
        for i in 0..p.arrays.len() {
            vars.insert(format!("arr{}", i), format!("@arr{}", i));
        }
        Model {
            p,
            vars,
            ticks: HashMap::new(),
            tocks: HashMap::new(),
            trace: vec![],
            steps: 0,
            max_steps,
            tainted: HashSet::new(),
            pending_out: vec![],
            nested: 0,
            depth: 0,
            max_depth_seen: 0,
            classes: HashSet::new(),
            block_runs: HashMap::new(),
            loop_nest: 0,
            max_call_depth: 40,
            cond_call_args: HashMap::new(),
            exit_on_error: false,
            failures: vec![],
            last_error: None,
            fn_calls: HashMap::new(),
            early_returns: 0,
            call_stack: vec![],
            script_source: String::new(),
            source_of: HashMap::new(),
            line_of: HashMap::new(),
            lib_messages: HashMap::new(),
        }
    }

    fn step(&mut self) -> Result<(), Stop> {
        self.steps += 1;
        if self.steps > self.max_steps {
            Err(Stop::Steps)
        } else {
            Ok(())
        }
    }

    fn read(&self, name: &str) -> Result<String, Stop> {
        if self.tainted.contains(name) {
            return Err(Stop::Unconstrained("read of a variable the property leaves unconstrained"));
        }
        Ok(self.vars.get(name).cloned().unwrap_or_default())
    }

    fn eval(&self, e: &Expr) -> Result<String, Stop> {
        match e {
            Expr::Lit(s) => Ok(s.clone()),
            Expr::Var(n) => self.read(n),
        }
    }

    fn assign(&mut self, name: &str, v: Option<String>) -> Result<(), Stop> {
        if self.pending_out.iter().any(|o| o == name) {
            return Err(Stop::Unconstrained("function body assigns the caller's pending output variable"));
        }
        self.tainted.remove(name);
        match v {
            Some(v) => {
                self.vars.insert(name.to_string(), v);
            }
            None => {
                self.vars.remove(name);
            }
        }
        Ok(())
    }

    fn cond(&mut self, c: &Cond) -> Result<bool, Stop> {
        match c {
            Cond::Value(e) => Ok(truthy(Some(&self.eval(e)?))),
            Cond::Bool(toks) => {
                let mut v = vec![];
                for t in toks {
                    v.push(match t {
                        CTok::Atom(e) => {
                            let b = truthy(Some(&self.eval(e)?));
                            (if b { Tok::T } else { Tok::F }, b)
                        }
                        CTok::And => (Tok::And, false),
                        CTok::Or => (Tok::Or, false),
                        CTok::Open => (Tok::Open, false),
                        CTok::Close => (Tok::Close, false),
                    });
                }
                Ok(eval_ref(&v))
            }
            Cond::Tick { neg: false, key, n } => Ok(crate::hz::tick_step(&mut self.ticks, key, *n)),
            Cond::Tick { neg: true, key, n } => Ok(!tock_step(&mut self.tocks, key, *n)),
            Cond::Probe { neg, id, args } => {
                self.classes.insert("command-form-condition-recording-its-arguments");
                if args.iter().any(|a| a.starts_with(' ') || a.ends_with(' ')) {
                    self.classes.insert("condition-command-argument-padded-with-blanks");
                }
                let mut v = vec![format!("cap:{}", id)];
                v.extend(args.iter().cloned());
                self.trace.push(Emitted { id: *id, args: v });
                Ok(!*neg)
            }
            Cond::Call { f, args } => {
                self.classes.insert("call-in-condition-position");
                let mut vals = vec![];
                for a in args {
                    vals.push(self.eval(a)?);
                }
                if let Some(prev) = self.cond_call_args.get(f) {
                    if *prev != vals && prev.join(" ") == vals.join(" ") {
                        self.classes.insert("condition-call-with-the-same-words-cut-differently");
                    }
                }
                self.cond_call_args.insert(*f, vals.clone());
                self.nested += 1;
                let r = self.call(*f, vals, None);
                self.nested -= 1;
                Ok(truthy(r?.as_deref()))
            }
        }
    }

    fn call(&mut self, f: usize, args: Vec<String>, out: Option<&str>) -> Result<Option<String>, Stop> {
        let def = &self.p.fns[f];
        if let Some(o) = out {
            if self.pending_out.iter().any(|p| p == o) {
                return Err(Stop::Unconstrained("function body assigns the caller's pending output variable"));
            }
        }
        *self.fn_calls.entry(f).or_insert(0) += 1;
        if self.call_stack.contains(&f) {
            self.classes.insert("direct-recursion");
        }
        self.call_stack.push(f);
        self.depth += 1;
        self.max_depth_seen = self.max_depth_seen.max(self.depth);
        if self.depth > self.max_call_depth {
            return Err(Stop::Steps);
        }
        let body = &def.body;
        let result;
        if def.scoped {
            let saved_vars = std::mem::take(&mut self.vars);
            let saved_taint = std::mem::take(&mut self.tainted);
            let saved_pending = std::mem::take(&mut self.pending_out);
            for (i, a) in args.iter().enumerate() {
                self.vars.insert((i + 1).to_string(), a.clone());
            }
            let flow = self.block(body);
            self.vars = saved_vars;
            self.tainted = saved_taint;
            self.pending_out = saved_pending;
            let flow = flow?;
            result = match flow {
                Flow::Return(v) => v,
                Flow::Normal | Flow::Break(_) => None,
            };
            if let Some(o) = out {
                match &result {
                    Some(v) => {
                        self.classes.insert("scoped-call-with-value");
                        self.tainted.remove(o);
                        self.vars.insert(o.to_string(), v.clone());
                    }
                    None => {
                        self.classes.insert("scoped-call-without-value");
                        if self.vars.contains_key(o) {
                            // corner 1: an output variable that already held a value
                            self.tainted.insert(o.to_string());
                        }
                    }
                }
            }
        } else {
            for (i, a) in args.iter().enumerate() {
                let n = (i + 1).to_string();
                self.tainted.remove(&n);
                self.vars.insert(n, a.clone());
            }
            if let Some(o) = out {
                if self.nested == 0 {
                    // the call instruction itself yields no value: the output variable is cleared
                    self.tainted.remove(o);
                    self.vars.remove(o);
                }
                self.pending_out.push(o.to_string());
            }
            let flow = self.block(body);
            if out.is_some() {
                self.pending_out.pop();
            }
            let flow = flow?;
            result = match flow {
                Flow::Return(v) => v,
                Flow::Normal | Flow::Break(_) => None,
            };
            if let Some(o) = out {
                match &result {
                    Some(v) => {
                        self.tainted.remove(o);
                        self.vars.insert(o.to_string(), v.clone());
                    }
                    None => {
                        if self.nested > 0 {
                            // corner 2: inside a function invoked in condition position
                            self.tainted.insert(o.to_string());
                        } else {
                            self.vars.remove(o);
                        }
                    }
                }
            }
            // whether numeric argument variables persist is not documented
            for i in 0..def.arity {
                self.tainted.insert((i + 1).to_string());
            }
        }
        self.depth -= 1;
        self.call_stack.pop();
        Ok(result)
    }

    fn block(&mut self, stmts: &'p [Stmt]) -> Result<Flow, Stop> {
        let key = stmts.as_ptr() as usize;
        let runs = self.block_runs.entry(key).or_insert(0);
        *runs += 1;
        if *runs >= 3 && !stmts.is_empty() {
            self.classes.insert("same-block-executed-3-times");
        }
        let mut at = 0;
        while at < stmts.len() {
            let s = &stmts[at];
            at += 1;
            self.step()?;
            match s {
                Stmt::Emit(id, args) => {
                    let mut v = vec![id.to_string()];
                    for a in args {
                        v.push(self.eval(a)?);
                    }
                    self.trace.push(Emitted { id: *id, args: v });
                }
                Stmt::Assign(v, e) => {
                    let val = self.eval(e)?;
                    self.assign(v, Some(val))?;
                }
                Stmt::AssignTick(v, k, n) => {
                    let b = crate::hz::tick_step(&mut self.ticks, k, *n);
                    self.assign(v, Some(b.to_string()))?;
                }
                Stmt::If(branches, els) => {
                    let mut taken = false;
                    for (c, b) in branches {
                        if self.cond(c)? {
                            taken = true;
                            match self.block(b)? {
                                Flow::Return(v) => {
                                    self.early_returns += 1;
                                    self.classes.insert("return-from-inside-branch");
                                    return Ok(Flow::Return(v));
                                }
                                Flow::Break(id) => return Ok(Flow::Break(id)),
                                Flow::Normal => {}
                            }
                            break;
                        }
                    }
                    if !taken {
                        if let Some(b) = els {
                            match self.block(b)? {
                                Flow::Return(v) => {
                                    self.early_returns += 1;
                                    self.classes.insert("return-from-inside-branch");
                                    return Ok(Flow::Return(v));
                                }
                                Flow::Break(id) => return Ok(Flow::Break(id)),
                                Flow::Normal => {}
                            }
                        }
                    }
                }
                Stmt::While(c, b) => {
                    let mut iters = 0;
                    loop {
                        self.step()?;
                        if !self.cond(c)? {
                            break;
                        }
                        iters += 1;
                        self.loop_nest += 1;
                        let r = self.block(b);
                        self.loop_nest -= 1;
                        match r? {
                            Flow::Return(v) => {
                                self.early_returns += 1;
                                self.classes.insert("return-from-inside-while");
                                return Ok(Flow::Return(v));
                            }
                            Flow::Break(id) => return Ok(Flow::Break(id)),
                            Flow::Normal => {}
                        }
                    }
                    if iters >= 100 {
                        self.classes.insert("while-ran-100-times");
                        if self.loop_nest > 0 {
                            self.classes.insert("while-ran-100-times-inside-a-loop-iteration");
                        }
                    }
                    if iters == 0 {
                        self.classes.insert("zero-iteration-loop");
                    }
                }
                Stmt::ForIn(v, src, b) => {
                    let h = self.eval(src)?;
                    // a value that is not an array handle: zero iterations
                    let items: Vec<String> = match h.strip_prefix("@arr").and_then(|i| i.parse::<usize>().ok()) {
                        Some(i) if i < self.p.arrays.len() => self.p.arrays[i].clone(),
                        _ => vec![],
                    };
                    if items.is_empty() {
                        self.classes.insert("zero-iteration-loop");
                    }
                    let ran_any = !items.is_empty();
                    let mut broke = false;
                    for (n, it) in items.into_iter().enumerate() {
                        self.step()?;
                        if n > 0 && self.eval(src)? != h {
                            // the loop line is re-bound on every iteration; a source variable changed by the body is outside "arrays are not mutated during iteration"
                            return Err(Stop::Unconstrained("for-in source variable changed during iteration"));
                        }
                        self.assign(v, Some(it))?;
                        self.loop_nest += 1;
                        let r = self.block(b);
                        self.loop_nest -= 1;
                        match r? {
                            Flow::Return(val) => {
                                self.early_returns += 1;
                                self.classes.insert("return-from-inside-for");
                                return Ok(Flow::Return(val));
                            }
                            Flow::Break(id) => {
                                self.classes.insert("for-in-left-by-goto-inside-a-function");
                                // the label stands further down in the same statement list (right after the loop)
                                match stmts[at..].iter().position(|x| matches!(x, Stmt::Label(l) if *l == id)) {
                                    Some(pos) => {
                                        at += pos + 1;
                                        broke = true;
                                        break;
                                    }
                                    None => return Ok(Flow::Break(id)),
                                }
                            }
                            Flow::Normal => {}
                        }
                    }
                    // the loop line is bound once more when the items are used up: a source changed by the LAST
                    // iteration (e.g. an argument variable overwritten by a nested call) is the same open corner
                    if broke {
                        continue;
                    }
                    if ran_any && self.eval(src)? != h {
                        return Err(Stop::Unconstrained("for-in source variable changed during iteration"));
                    }
                }
                Stmt::Call { out, f, args } => {
                    let mut vals = vec![];
                    for a in args {
                        vals.push(self.eval(a)?);
                    }
                    self.call(*f, vals, out.as_deref())?;
                }
                Stmt::Break(id) => {
                    if self.nested > 0 {
                        // a function evaluated in condition position runs through the nested evaluator, where a jump is
                        // not a documented way to go on: outside the statement
                        return Err(Stop::Unconstrained("goto inside a function called in condition position"));
                    }
                    return Ok(Flow::Break(*id));
                }
                Stmt::Label(_) => {}
                Stmt::Return(e) => {
                    let v = match e {
                        Some(e) => Some(self.eval(e)?),
                        None => None,
                    };
                    return Ok(Flow::Return(v));
                }
                Stmt::Fail { out, kind, id } => {
                    if self.nested > 0 {
                        return Err(Stop::Unconstrained("failing command inside a function called in condition position"));
                    }
                    let msg = match kind {
                        FailKind::Trigger(m) => m.clone(),
                        FailKind::Library(c) => match self.lib_messages.get(c) {
                            Some(m) => m.clone(),
                            None => return Err(Stop::Unconstrained("library message unknown")),
                        },
                    };
                    self.failures.push(*id);
                    if let Some(o) = out {
                        self.assign(o, Some("false".into()))?;
                    }
                    self.last_error = Some((msg.clone(), *id));
                    if self.exit_on_error {
                        return Err(Stop::Fatal(*id));
                    }
                    // the probe lines that follow
                    let line = self.line_of.get(id).copied().unwrap_or(0);
                    let source = self.source_of.get(id).cloned().unwrap_or_else(|| self.script_source.clone());
                    self.assign("pe", Some(msg.clone()))?;
                    self.assign("pl", Some(line.to_string()))?;
                    self.assign("ps", Some(source.clone()))?;
                    let ov = match out {
                        Some(o) => self.read(o)?,
                        None => "-".to_string(),
                    };
                    self.trace.push(Emitted { id: *id, args: vec![id.to_string(), "probe".into(), msg, line.to_string(), source, ov] });
                }
                Stmt::ExitOnError(b) => {
                    self.exit_on_error = *b;
                }
                Stmt::Lib(_) => {
                    self.classes.insert("script-implemented-command-that-calls-another-one");
                    if self.loop_nest > 0 {
                        self.classes.insert("nested-script-command-inside-a-loop-body");
                    }
                    self.tainted.insert("zzlib".to_string());
                }
                Stmt::SetError(_) => {
                    // replaces the stored last error only (every probe follows a real error, which replaces it again);
                    // in particular it leaves the exit_on_error mode as it is
                    if self.exit_on_error {
                        self.classes.insert("set_error-while-exit_on_error-is-on");
                    }
                }
            }
        }
        Ok(Flow::Normal)
    }

    pub fn run(&mut self) -> Result<(), Stop> {
        let main: &'p [Stmt] = &self.p.main;
        match self.block(main)? {
            Flow::Normal => Ok(()),
            Flow::Return(_) | Flow::Break(_) => Ok(()),
        }
    }
}

/// nesting statistics of a program (static)
pub fn shape(p: &Program) -> (usize, HashSet<&'static str>) {
    fn walk(s: &[Stmt], depth: usize, kinds_path: &mut Vec<&'static str>, maxd: &mut usize, classes: &mut HashSet<&'static str>) {
        for st in s {
            let (k, children): (&'static str, Vec<&[Stmt]>) = match st {
                Stmt::If(b, e) => {
                    let mut c: Vec<&[Stmt]> = b.iter().map(|(_, x)| x.as_slice()).collect();
                    if let Some(e) = e {
                        c.push(e.as_slice());
                    }
                    if b.len() > 1 {
                        classes.insert("elseif-chain");
                    }
                    ("if", c)
                }
                Stmt::While(_, b) => ("while", vec![b.as_slice()]),
                Stmt::ForIn(_, _, b) => ("for", vec![b.as_slice()]),
                _ => continue,
            };
            *maxd = (*maxd).max(depth + 1);
            if children.iter().all(|c| c.is_empty()) {
                classes.insert("empty-body");
            }
            kinds_path.push(k);
            let distinct: HashSet<&&str> = kinds_path.iter().collect();
            if distinct.len() >= 2 {
                classes.insert("two-block-kinds-nested");
            }
            if kinds_path.len() >= 3 && kinds_path[kinds_path.len() - 3..] == ["while", "for", "if"] {
                classes.insert("if-inside-for-inside-while");
            }
            if kinds_path.len() >= 3 && kinds_path[kinds_path.len() - 1] == kinds_path[kinds_path.len() - 3] && kinds_path[kinds_path.len() - 2] != kinds_path[kinds_path.len() - 1] {
                classes.insert("x-y-x-nesting");
            }
            for c in children {
                walk(c, depth + 1, kinds_path, maxd, classes);
            }
            kinds_path.pop();
        }
    }
    let mut maxd = 0;
    let mut classes = HashSet::new();
    let mut path = vec![];
    walk(&p.main, 0, &mut path, &mut maxd, &mut classes);
    for f in &p.fns {
        walk(&f.body, 0, &mut path, &mut maxd, &mut classes);
    }
    if maxd >= 4 {
        classes.insert("depth-4-or-more");
    }
    (maxd, classes)
}

pub fn count_classes(st: &mut Stats, classes: &HashSet<&'static str>) {
    for c in classes {
        st.class(c);
    }
}
