//! dsverif as a library: the same generators and oracles are driven by the `dsverif` binary (proptest) and by the
//! libFuzzer target in `fuzz/` (coverage-guided).
pub mod engine;
pub mod flow;
pub mod gen;
pub mod hz;
pub mod props;
