//! Harness-side commands, per-thread harness state, context construction and script running.

use duckscript::runner;
use duckscript::types::command::{Command, CommandInvocationContext, CommandResult, Commands};
use duckscript::types::env::Env;
use duckscript::types::error::ScriptError;
use duckscript::types::runtime::Context;
use std::cell::RefCell;
use std::collections::HashMap;
use std::io::Write;
use std::rc::Rc;
use std::sync::atomic::{AtomicBool, Ordering};
use std::sync::Arc;

#[derive(Clone, Debug, PartialEq)]
pub struct Event {
    pub cmd: String,
    pub args: Vec<String>,
    pub line: usize,
    pub out: Option<String>,
}

#[derive(Default)]
pub struct Hz {
    pub trace: Vec<Event>,
    /// values served by `put i`
    pub side: Vec<String>,
    /// tick automata: key -> times answered true since last reset
    pub ticks: HashMap<String, u32>,
    pub tocks: HashMap<String, u32>,
    /// answers served by `cap` in order (then "true")
    pub cap_answers: Vec<String>,
    pub cap_next: usize,
    /// halt: set the flag when the invocation counter reaches this value (1-based)
    pub halt_at: Option<u64>,
    /// the invocation with this number replaces the halt token of the env it was given by a fresh one (an embedder
    /// command that arms a new cancel token); the flag is raised later through whatever token the env then holds
    pub rearm_at: Option<u64>,
    pub halt_flag: Option<Arc<AtomicBool>>,
    pub shared_counter: Option<Arc<std::sync::atomic::AtomicU64>>,
    pub invocations: u64,
    /// snapshot of variables taken by the halting invocation
    pub halt_snapshot: Option<HashMap<String, String>>,
    /// second-thread halt: gate opened at this invocation
    pub gate_at: Option<u64>,
    pub gate: Option<Arc<AtomicBool>>,
    /// value the scripted `res` command handed back for its output variable (Continue / GoTo results), by invocation number
    pub res_out: HashMap<u64, Option<String>>,
    /// generic per-property scratch
    pub counters: HashMap<String, i64>,
}

thread_local! {
    pub static HZ: RefCell<Hz> = RefCell::new(Hz::default());
    static BASE: RefCell<Option<Context>> = RefCell::new(None);
}

pub fn hz_reset() {
    HZ.with(|h| *h.borrow_mut() = Hz::default());
}

pub fn with_hz<T>(f: impl FnOnce(&mut Hz) -> T) -> T {
    HZ.with(|h| f(&mut h.borrow_mut()))
}

pub fn note_invocation(h: &mut Hz, variables: &HashMap<String, String>, env_halt: &mut Arc<AtomicBool>) {
    h.invocations += 1;
    if h.rearm_at == Some(h.invocations) {
        *env_halt = Arc::new(AtomicBool::new(false));
    }
    if let Some(c) = &h.shared_counter {
        c.fetch_add(1, Ordering::SeqCst);
    }
    if let Some(k) = h.halt_at {
        if h.invocations == k {
            // raise the flag the way a command can: through the env it was given
            env_halt.store(true, Ordering::SeqCst);
            h.halt_snapshot = Some(variables.clone());
        }
    }
    if let Some(k) = h.gate_at {
        if h.invocations == k {
            if let Some(g) = &h.gate {
                g.store(true, Ordering::SeqCst);
            }
        }
    }
}

macro_rules! simple_command {
    ($ty:ident, $name:expr, $aliases:expr, $run:expr) => {
        #[derive(Clone)]
        pub struct $ty;
        impl Command for $ty {
            fn name(&self) -> String {
                $name.to_string()
            }
            fn aliases(&self) -> Vec<String> {
                let a: &[&str] = &$aliases;
                a.iter().map(|s| s.to_string()).collect()
            }
            fn clone_and_box(&self) -> Box<dyn Command> {
                Box::new(self.clone())
            }
            fn run(&self, context: CommandInvocationContext) -> CommandResult {
                let f: fn(CommandInvocationContext) -> CommandResult = $run;
                f(context)
            }
        }
    };
}

simple_command!(EmitCmd, "hz::Emit", ["emit"], |c| {
    with_hz(|h| {
        h.trace.push(Event {
            cmd: "emit".into(),
            args: c.arguments.clone(),
            line: c.line,
            out: c.output_variable.clone(),
        });
        note_invocation(h, c.variables, &mut c.env.halt);
    });
    CommandResult::Continue(None)
});

simple_command!(CapCmd, "hz::Cap", ["cap", "cap2", "hz_capture"], |c| {
    let ans = with_hz(|h| {
        h.trace.push(Event {
            cmd: "cap".into(),
            args: c.arguments.clone(),
            line: c.line,
            out: c.output_variable.clone(),
        });
        note_invocation(h, c.variables, &mut c.env.halt);
        let a = if h.cap_next < h.cap_answers.len() {
            h.cap_answers[h.cap_next].clone()
        } else {
            "true".to_string()
        };
        h.cap_next += 1;
        a
    });
    CommandResult::Continue(Some(ans))
});

simple_command!(PutCmd, "hz::Put", ["put"], |c| {
    let v = with_hz(|h| {
        let i: usize = c.arguments.get(0).and_then(|s| s.parse().ok()).unwrap_or(usize::MAX);
        h.side.get(i).cloned()
    });
    match v {
        Some(v) => CommandResult::Continue(Some(v)),
        None => CommandResult::Crash("hz::Put: bad index".into()),
    }
});

/// `tick k n`: answers true n times, then false once (and re-arms).
pub fn tick_step(ticks: &mut HashMap<String, u32>, key: &str, n: u32) -> bool {
    let e = ticks.entry(key.to_string()).or_insert(0);
    if *e < n {
        *e += 1;
        true
    } else {
        *e = 0;
        false
    }
}

simple_command!(TickCmd, "hz::Tick", ["tick"], |c| {
    let r = with_hz(|h| {
        let key = c.arguments.get(0).cloned().unwrap_or_default();
        let n: u32 = c.arguments.get(1).and_then(|s| s.parse().ok()).unwrap_or(0);
        h.trace.push(Event {
            cmd: "tick".into(),
            args: c.arguments.clone(),
            line: c.line,
            out: c.output_variable.clone(),
        });
        note_invocation(h, c.variables, &mut c.env.halt);
        tick_step(&mut h.ticks, &key, n)
    });
    CommandResult::Continue(Some(if r { "true".into() } else { "false".into() }))
});

/// `tock k n`: answers false n times, then true once (and re-arms).
simple_command!(TockCmd, "hz::Tock", ["tock"], |c| {
    let r = with_hz(|h| {
        let key = c.arguments.get(0).cloned().unwrap_or_default();
        let n: u32 = c.arguments.get(1).and_then(|s| s.parse().ok()).unwrap_or(0);
        h.trace.push(Event {
            cmd: "tock".into(),
            args: c.arguments.clone(),
            line: c.line,
            out: c.output_variable.clone(),
        });
        note_invocation(h, c.variables, &mut c.env.halt);
        crate::flow::tock_step(&mut h.tocks, &key, n)
    });
    CommandResult::Continue(Some(if r { "true".into() } else { "false".into() }))
});

pub fn register_harness_commands(commands: &mut Commands) {
    commands.set(Box::new(EmitCmd)).unwrap();
    commands.set(Box::new(CapCmd)).unwrap();
    commands.set(Box::new(PutCmd)).unwrap();
    commands.set(Box::new(TickCmd)).unwrap();
    commands.set(Box::new(TockCmd)).unwrap();
}

/// A fresh context with the full SDK and the harness commands (cloned from a per-thread base).
pub fn sdk_context() -> Context {
    BASE.with(|b| {
        let mut b = b.borrow_mut();
        if b.is_none() {
            let mut c = Context::new();
            duckscriptsdk::load(&mut c.commands).expect("sdk load");
            register_harness_commands(&mut c.commands);
            *b = Some(c);
        }
        b.as_ref().unwrap().clone()
    })
}

/// A context with only the harness commands.
pub fn bare_context() -> Context {
    let mut c = Context::new();
    register_harness_commands(&mut c.commands);
    c
}

/// Spread-binds (`emit %{v}`) every tail of `line` that starts after a blank, on this thread, on a throw-away context:
/// what an unrelated earlier script does when it spreads a variable that happens to hold the same text as the arguments
/// of a line parsed later. A parse must not depend on it (C01, C08).
pub fn spread_tails_on_this_thread(line: &str) -> usize {
    use duckscript::types::instruction::{Instruction, InstructionMetaInfo, InstructionType, ScriptInstruction};
    let l = line.trim_end_matches(['\n', '\r']).trim();
    let mut tails: Vec<String> = vec![l.to_string()];
    for (i, ch) in l.char_indices() {
        if ch == ' ' {
            let cand = l[i..].trim_start().to_string();
            if !cand.is_empty() && !tails.contains(&cand) {
                tails.push(cand);
            }
            if tails.len() >= 12 {
                break;
            }
        }
    }
    let mut c = bare_context();
    let (mut env, _o) = make_env(None);
    for v in &tails {
        c.variables.insert("zzv".to_string(), v.clone());
        let mut si = ScriptInstruction::new();
        si.command = Some("emit".to_string());
        si.arguments = Some(vec!["%{zzv}".to_string()]);
        let ins = Instruction { meta_info: InstructionMetaInfo::new(), instruction_type: InstructionType::Script(si) };
        let _ = runner::run_instruction(&mut c.commands, &mut c.variables, &mut c.state, &vec![], ins, 0, &mut env);
    }
    hz_reset();
    tails.len()
}

#[derive(Clone, Default)]
pub struct SharedBuf(pub Rc<RefCell<Vec<u8>>>);

impl Write for SharedBuf {
    fn write(&mut self, buf: &[u8]) -> std::io::Result<usize> {
        self.0.borrow_mut().extend_from_slice(buf);
        Ok(buf.len())
    }
    fn flush(&mut self) -> std::io::Result<()> {
        Ok(())
    }
}

/// native nesting of run_instruction allowed per run (nested evaluation); far above what generated programs need
pub const NEST_LIMIT: usize = 600;

pub struct RunOut {
    pub result: Result<Context, ScriptError>,
    pub out: String,
    pub fuel_exhausted: bool,
    pub fuel_used: u64,
    pub depth_exceeded: bool,
}

pub fn make_env(halt: Option<Arc<AtomicBool>>) -> (Env, SharedBuf) {
    let out = SharedBuf::default();
    let err = SharedBuf::default();
    (Env::new(Some(Box::new(out.clone())), Some(Box::new(err)), halt), out)
}

pub fn run_text(text: &str, ctx: Context, fuel: u64, halt: Option<Arc<AtomicBool>>) -> RunOut {
    let (env, out) = make_env(halt);
    runner::verif_fuel::set(fuel);
    runner::verif_fuel::set_depth_limit(NEST_LIMIT);
    let result = runner::run_script(text, ctx, Some(env));
    let fuel_exhausted = runner::verif_fuel::exhausted();
    let fuel_used = runner::verif_fuel::used();
    let depth_exceeded = runner::verif_fuel::depth_exceeded();
    runner::verif_fuel::set(u64::MAX);
    runner::verif_fuel::set_depth_limit(usize::MAX);
    let o = String::from_utf8_lossy(&out.0.borrow()).to_string();
    RunOut {
        result,
        out: o,
        fuel_exhausted,
        fuel_used,
        depth_exceeded,
    }
}

pub fn run_file(path: &str, ctx: Context, fuel: u64, halt: Option<Arc<AtomicBool>>) -> RunOut {
    let (env, out) = make_env(halt);
    runner::verif_fuel::set(fuel);
    runner::verif_fuel::set_depth_limit(NEST_LIMIT);
    let result = runner::run_script_file(path, ctx, Some(env));
    let fuel_exhausted = runner::verif_fuel::exhausted();
    let fuel_used = runner::verif_fuel::used();
    let depth_exceeded = runner::verif_fuel::depth_exceeded();
    runner::verif_fuel::set(u64::MAX);
    runner::verif_fuel::set_depth_limit(usize::MAX);
    let o = String::from_utf8_lossy(&out.0.borrow()).to_string();
    RunOut {
        result,
        out: o,
        fuel_exhausted,
        fuel_used,
        depth_exceeded,
    }
}

pub fn err_to_string(e: &ScriptError) -> String {
    format!("{:?}", e)
}

/// per-process scratch root (tmpfs when available); created lazily, removed at exit by main
pub fn scratch_root() -> String {
    let base = if std::path::Path::new("/dev/shm").is_dir() {
        "/dev/shm".to_string()
    } else {
        std::env::temp_dir().to_string_lossy().to_string()
    };
    let p = format!("{}/dsverif-{}", base, std::process::id());
    let _ = std::fs::create_dir_all(&p);
    p
}

pub fn scratch_cleanup() {
    let base = if std::path::Path::new("/dev/shm").is_dir() {
        "/dev/shm".to_string()
    } else {
        std::env::temp_dir().to_string_lossy().to_string()
    };
    let p = format!("{}/dsverif-{}", base, std::process::id());
    let _ = std::fs::remove_dir_all(&p);
}
