//! C14 — including files is equivalent to pasting them in place, with provenance kept.

use crate::engine::*;
use crate::hz::*;
use crate::props::c08::malformed_line;
use duckscript::parser;
use duckscript::types::error::ScriptError;
use duckscript::types::instruction::{Instruction, InstructionType};
use serde_json::json;
use std::collections::HashMap;
use std::path::{Path, PathBuf};

#[derive(Clone, Debug)]
enum Line {
    Text(String),
    /// include directive: (how each path is written, index of the target file)
    Include(Vec<(String, usize)>),
}

#[derive(Clone, Debug)]
struct FileSpec {
    /// path relative to the case directory
    rel: String,
    lines: Vec<Line>,
}

const DIRS: &[&str] = &["", "sub", "sub/deep", "other dir", "dé", "c:", "v1.2", "Sub", "SUB/deep"];
const NAMES: &[&str] = &["a.ds", "b.ds", "lib.ds", "my file.ds", "é.ds", "util.ds", "x.y.ds", "m:util.ds", "-x.ds", "~t.ds", "Util.ds", "A.ds", "LIB.DS"];

fn rel_path(from_dir: &str, to: &str) -> String {
    // relative path from directory `from_dir` to file `to` (both relative to the case root)
    let f: Vec<&str> = from_dir.split('/').filter(|s| !s.is_empty()).collect();
    let t: Vec<&str> = to.split('/').collect();
    let mut common = 0;
    while common < f.len() && common + 1 < t.len() && f[common] == t[common] {
        common += 1;
    }
    let mut parts: Vec<String> = vec![];
    for _ in common..f.len() {
        parts.push("..".into());
    }
    for p in &t[common..] {
        parts.push(p.to_string());
    }
    parts.join("/")
}

fn quote_if_needed(p: &str) -> String {
    if p.contains(' ') {
        format!("\"{}\"", p)
    } else {
        p.to_string()
    }
}

struct Gen<'a, 'b> {
    t: &'a mut Tape<'b>,
    files: Vec<FileSpec>,
    root_abs: String,
    counter: u32,
    max_depth: usize,
    fns: Vec<String>,
}

impl<'a, 'b> Gen<'a, 'b> {
    fn body_lines(&mut self, id: usize, n: usize, depth: usize, st: &mut Stats) -> Vec<Line> {
        let mut v = vec![];
        for _ in 0..n {
            self.counter += 1;
            let k = self.counter;
            match self.t.weighted(&[5, 2, 2, 2, 2, if depth < self.max_depth && self.files.len() < 9 { 3 } else { 0 }, 1, 1]) {
                0 => v.push(Line::Text(format!("emit f{}n{} ${{v}} ${{w}}", id, k))),
                1 => v.push(Line::Text(format!("{} = set val{}", self.t.pick(&["v", "w"]), k))),
                2 => {
                    let c = *self.t.pick_ref(&["true", "false", "${v}"]);
                    v.push(Line::Text(format!("if {}", c)));
                    v.push(Line::Text(format!("    emit f{}n{} in-if", id, k)));
                    v.push(Line::Text("end".into()));
                }
                3 => {
                    let name = format!("fn_{}_{}", id, k);
                    v.push(Line::Text(format!("fn {}", name)));
                    v.push(Line::Text(format!("    emit in-{} ${{1}}", name)));
                    v.push(Line::Text("end".into()));
                    self.fns.push(name);
                }
                4 => {
                    if self.fns.is_empty() {
                        v.push(Line::Text(String::new()));
                    } else {
                        let f = self.t.pick_ref(&self.fns).clone();
                        v.push(Line::Text(format!("{} arg{}", f, k)));
                    }
                }
                5 => {
                    // include 1..2 files (new ones, or an existing leaf again)
                    let cnt = 1 + self.t.below(2);
                    let mut targets = vec![];
                    for _ in 0..cnt {
                        let target = if !self.files.is_empty() && self.t.chance(1, 5) {
                            // the same file again: only files without directives of their own (keeps the tree acyclic)
                            let cands: Vec<usize> = (1..self.files.len()).filter(|i| self.files[*i].lines.iter().all(|l| matches!(l, Line::Text(_))) && !self.files[*i].lines.is_empty()).collect();
                            if cands.is_empty() {
                                self.new_file(depth + 1, st, id)
                            } else {
                                st.class("file-included-twice");
                                cands[self.t.below(cands.len())]
                            }
                        } else {
                            self.new_file(depth + 1, st, id)
                        };
                        targets.push(target);
                    }
                    let my_dir = Path::new(&self.files[id].rel).parent().map(|p| p.to_string_lossy().to_string()).unwrap_or_default();
                    let written: Vec<(String, usize)> = targets
                        .into_iter()
                        .map(|ti| {
                            let rel = rel_path(&my_dir, &self.files[ti].rel);
                            let w = match self.t.below(4) {
                                0 => format!("./{}", rel),
                                1 => rel.clone(),
                                2 => format!("{}/{}", self.root_abs, self.files[ti].rel),
                                _ => {
                                    if rel.starts_with("..") {
                                        rel.clone()
                                    } else {
                                        format!("./{}", rel)
                                    }
                                }
                            };
                            (w, ti)
                        })
                        .collect();
                    if v.is_empty() {
                        st.class("include-at-first-line");
                    } else {
                        st.class("include-not-at-first-line");
                    }
                    v.push(Line::Include(written));
                }
                6 => {
                    // a run-time error with provenance probes
                    v.push(Line::Text(format!("trigger_error planted{}", k)));
                    v.push(Line::Text("pl = get_last_error_line".into()));
                    v.push(Line::Text("ps = get_last_error_source".into()));
                    v.push(Line::Text(format!("emit probe planted{} ${{pl}} ${{ps}}", k)));
                }
                _ => v.push(Line::Text(format!("# comment {}", k))),
            }
        }
        v
    }

    fn new_file(&mut self, depth: usize, st: &mut Stats, includer: usize) -> usize {
        let id = self.files.len();
        let dir = *self.t.pick_ref(DIRS);
        let name = format!("{}{}", id, self.t.pick(NAMES));
        let mut rel = if dir.is_empty() { name } else { format!("{}/{}", dir, name) };
        if self.t.chance(1, 12) {
            // a different file whose path differs from the including file's path in letter case only
            let theirs = self.files[includer].rel.clone();
            let swapped: String = theirs.chars().map(|c| if c.is_ascii_lowercase() { c.to_ascii_uppercase() } else { c.to_ascii_lowercase() }).collect();
            if swapped != theirs && !self.files.iter().any(|f| f.rel == swapped) {
                rel = swapped;
                st.class("included-file-named-like-its-includer-in-other-letter-case");
            }
        }
        self.files.push(FileSpec { rel, lines: vec![] });
        let n = self.t.len(6);
        let lines = self.body_lines(id, n, depth, st);
        self.files[id].lines = lines;
        id
    }
}

/// my own recursive inliner: (pasted text, provenance of every pasted line as (file index, 1-based line))
fn paste(files: &[FileSpec], id: usize, out: &mut String, prov: &mut Vec<(usize, usize)>) {
    for (i, l) in files[id].lines.iter().enumerate() {
        match l {
            Line::Text(t) => {
                out.push_str(t);
                out.push('\n');
                prov.push((id, i + 1));
            }
            Line::Include(ts) => {
                // the directive line stays as a no-op placeholder so that instruction positions match
                out.push('\n');
                prov.push((id, i + 1));
                for (_, ti) in ts {
                    paste(files, *ti, out, prov);
                }
            }
        }
    }
}

fn file_text(f: &FileSpec) -> String {
    let mut s = String::new();
    for l in &f.lines {
        match l {
            Line::Text(t) => s.push_str(t),
            Line::Include(ts) => {
                s.push_str("!include_files");
                for (w, _) in ts {
                    s.push(' ');
                    s.push_str(&quote_if_needed(w));
                }
            }
        }
        s.push('\n');
    }
    s
}

fn same_instruction(a: &Instruction, b: &Instruction) -> bool {
    match (&a.instruction_type, &b.instruction_type) {
        (InstructionType::Script(x), InstructionType::Script(y)) => x.label == y.label && x.output == y.output && x.command == y.command && x.arguments == y.arguments,
        (InstructionType::Empty, InstructionType::Empty) => true,
        // the directive itself against its placeholder
        (InstructionType::PreProcess(_), InstructionType::Empty) => true,
        _ => false,
    }
}

fn canon(p: &str) -> String {
    std::fs::canonicalize(p).map(|x| x.to_string_lossy().to_string()).unwrap_or_else(|_| p.to_string())
}

fn case(t: &mut Tape, st: &mut Stats, max_depth: usize) -> Verdict {
    let dir = format!("{}/c14-{:?}", scratch_root(), std::thread::current().id()).replace(['(', ')'], "");
    let _ = std::fs::remove_dir_all(&dir);
    std::fs::create_dir_all(&dir).expect("mkdir");
    let root_abs = canon(&dir);
    let mut g = Gen { t, files: vec![], root_abs: root_abs.clone(), counter: 0, max_depth, fns: vec![] };
    g.files.push(FileSpec { rel: "root.ds".into(), lines: vec![] });
    let n = 1 + g.t.len(7);
    let lines = g.body_lines(0, n, 0, st);
    g.files[0].lines = lines;
    // one tree in forty gets, at the end of the root file, a chain of 65..160 files each including the next (with lines
    // before and after the directive), or one directive naming 40..120 files
    if g.t.chance(1, 40) {
        if g.t.flip() {
            let n = 65 + g.t.below(96);
            let first = g.files.len();
            for i in 0..n {
                let mut lines = vec![Line::Text(format!("emit chain {} ${{v}}", i))];
                if i + 1 < n {
                    lines.push(Line::Include(vec![(format!("./c{}.ds", i + 1), first + i + 1)]));
                    lines.push(Line::Text(format!("emit back-in {}", i)));
                }
                g.files.push(FileSpec { rel: format!("chain/c{}.ds", i), lines });
            }
            g.files[0].lines.push(Line::Include(vec![("./chain/c0.ds".to_string(), first)]));
            st.class("include-chain-deeper-than-64");
        } else {
            let n = 40 + g.t.below(81);
            let first = g.files.len();
            let mut named = vec![];
            for i in 0..n {
                g.files.push(FileSpec { rel: format!("wide/w{}.ds", i), lines: vec![Line::Text(format!("emit wide {}", i))] });
                named.push((format!("wide/w{}.ds", i), first + i));
            }
            g.files[0].lines.push(Line::Include(named));
            st.class("directive-naming-40-or-more-files");
        }
        g.files[0].lines.push(Line::Text("emit after-the-big-include".to_string()));
    }
    // one tree in twelve: ONE physical file under two names on one include chain (a hard link, or a symbolic link named by
    // an absolute path, which is used as written). Its relative directive resolves against the directory of the name it
    // was reached by, so the two occurrences include different files and the tree is acyclic.
    let mut twin: Option<(usize, usize, bool)> = None; // (first name, second name, second name is a symbolic link)
    if g.t.chance(1, 12) {
        let first = g.files.len();
        let absolute = g.t.flip();
        let symlink = absolute && g.t.flip();
        let x_lines = |y: usize| vec![Line::Text("emit twin ${v}".to_string()), Line::Include(vec![("./y.ds".to_string(), y)]), Line::Text("emit twin-after".to_string())];
        let second = if absolute { format!("{}/tq/x.ds", root_abs) } else { "../tq/x.ds".to_string() };
        g.files.push(FileSpec { rel: "tp/x.ds".into(), lines: x_lines(first + 1) });
        g.files.push(FileSpec { rel: "tp/y.ds".into(), lines: vec![Line::Text("emit py".into()), Line::Include(vec![(second, first + 2)]), Line::Text("emit py-after".into())] });
        g.files.push(FileSpec { rel: "tq/x.ds".into(), lines: x_lines(first + 3) });
        g.files.push(FileSpec { rel: "tq/y.ds".into(), lines: vec![Line::Text("emit qy ${w}".into())] });
        g.files[0].lines.push(Line::Include(vec![("./tp/x.ds".to_string(), first)]));
        g.files[0].lines.push(Line::Text("emit after-the-twins".to_string()));
        twin = Some((first, first + 2, symlink));
        st.class("one-file-under-two-names-on-one-include-chain");
    }
    let files = g.files.clone();
    // planted fault? (not in the twin files: they are one file)
    let fault = g.t.weighted(&[6, 1, 1]);
    let fault = if twin.is_some() && fault == 1 { 0 } else { fault };
    let plantable = twin.map(|x| x.0).unwrap_or(files.len());
    let mut files = files;
    let mut expect_fault: Option<(&'static str, usize, usize)> = None; // (kind, file, line)
    let mut missing: Option<String> = None;
    if fault == 1 && files.len() > 1 {
        // a missing file: remove one included file that is included exactly once... simply do not write it
        let victim = 1 + g.t.below(files.len() - 1);
        missing = Some(files[victim].rel.clone());
        st.class("planted-missing-file");
    } else if fault == 2 {
        let fi = g.t.below(plantable);
        let (bad, kind, _) = malformed_line(g.t);
        let pos = g.t.below(files[fi].lines.len() + 1);
        files[fi].lines.insert(pos, Line::Text(bad));
        expect_fault = Some((kind, fi, pos + 1));
        st.class("planted-malformed-line");
    }
    for (fi, f) in files.iter().enumerate() {
        if Some(&f.rel) == missing.as_ref() {
            continue;
        }
        let p = PathBuf::from(&dir).join(&f.rel);
        std::fs::create_dir_all(p.parent().unwrap()).expect("mkdir");
        match twin {
            Some((a, b, symlink)) if fi == b => {
                assert_eq!(file_text(&files[a]), file_text(f));
                if symlink {
                    std::os::unix::fs::symlink("../tp/x.ds", &p).expect("symlink");
                } else {
                    std::fs::hard_link(PathBuf::from(&dir).join(&files[a].rel), &p).expect("hard link");
                }
            }
            _ => std::fs::write(&p, file_text(f)).expect("write"),
        }
    }
    let root_path = format!("{}/root.ds", dir);
    // one tree in ten: the root file is a symbolic link to a file in another directory (relative paths resolve
    // against the directory of the path the file was reached by), with decoys of the top-level files next to the target
    if g.t.chance(1, 10) {
        let target_dir = format!("{}/zz_target", dir);
        let _ = std::fs::create_dir_all(&target_dir);
        if std::fs::rename(&root_path, format!("{}/root_impl.ds", target_dir)).is_ok() && std::os::unix::fs::symlink("zz_target/root_impl.ds", &root_path).is_ok() {
            for f in files.iter().skip(1) {
                if !f.rel.contains('/') {
                    let _ = std::fs::write(format!("{}/{}", target_dir, f.rel), "emit decoy-next-to-the-link-target\n");
                }
            }
            st.class("root-file-reached-through-a-symlink");
        }
    }
    let abs = |rel: &str| format!("{}/{}", root_abs, rel);
    let describe = |what: &str, extra: serde_json::Value| {
        json!({"files": files.iter().map(|f| json!({"path": f.rel, "text": file_text(f)})).collect::<Vec<_>>(), "mismatch": what, "detail": extra})
    };
    let cleanup = || {
        let _ = std::fs::remove_dir_all(&dir);
    };
    let depth_of = |files: &[FileSpec]| -> usize {
        fn d(files: &[FileSpec], id: usize) -> usize {
            1 + files[id].lines.iter().filter_map(|l| if let Line::Include(ts) = l { ts.iter().map(|(_, i)| d(files, *i)).max() } else { None }).max().unwrap_or(0)
        }
        d(files, 0) - 1
    };
    let tree_depth = depth_of(&files);
    if tree_depth >= 2 {
        st.class("tree-depth-2");
    }
    let parsed = parser::parse_file(&root_path);

    // the missing file might not be reachable (it may be included after another fault) - it always is here
    if let Some(m) = &missing {
        cleanup();
        // is the missing file actually referenced? (a file can lose its only reference never: every file is referenced once)
        return match parsed {
            Err(ScriptError::ErrorReadingFile(f, _)) => {
                if canon_like(&f) == abs(m) || f.ends_with(m.as_str()) {
                    Verdict::Pass(Some(fp(&format!("{:?}", files))))
                } else {
                    fail("C14/missing-file/wrong-file-named", describe("error names another file", json!({"named": f, "missing": abs(m)})))
                }
            }
            Err(e) => fail("C14/missing-file/wrong-error", describe("unexpected error kind", json!(format!("{:?}", e)))),
            Ok(_) => fail("C14/missing-file/accepted", describe("parse succeeded although an included file is missing", json!(m))),
        };
    }
    if let Some((kind, fi, line)) = expect_fault {
        cleanup();
        return match parsed {
            Err(e) => {
                let (k, l, src) = err_parts(&e);
                let want_src = if fi == 0 { root_path.clone() } else { abs(&files[fi].rel) };
                if k != kind {
                    fail("C14/malformed-line/wrong-kind", describe("error kind differs", json!({"expected": kind, "got": k})))
                } else if l != Some(line) || src.as_deref().map(canon_like) != Some(canon_like(&want_src)) {
                    fail("C14/malformed-line/wrong-position", describe("error position differs", json!({"expected": [want_src, line], "got": [src, l]})))
                } else {
                    Verdict::Pass(Some(fp(&format!("{:?}", files))))
                }
            }
            Ok(_) => fail("C14/malformed-line/accepted", describe("parse succeeded although a line is malformed", json!({"file": files[fi].rel, "line": line}))),
        };
    }

    // (1) + (2): parse level and provenance
    let mut pasted = String::new();
    let mut prov = vec![];
    paste(&files, 0, &mut pasted, &mut prov);
    let included = match parsed {
        Ok(v) => v,
        Err(e) => {
            cleanup();
            return fail("C14/parse-error", describe("parse_file failed on a well-formed tree", json!(format!("{:?}", e))));
        }
    };
    let flat = match parser::parse_text(&pasted) {
        Ok(v) => v,
        Err(e) => {
            cleanup();
            return fail("C14/harness-pasted-text-does-not-parse", describe("pasted text failed to parse", json!(format!("{:?}", e))));
        }
    };
    if included.len() != flat.len() {
        cleanup();
        return fail("C14/instruction-count", describe("number of instructions differs from the pasted script", json!({"included": included.len(), "pasted": flat.len()})));
    }
    for (i, (a, b)) in included.iter().zip(flat.iter()).enumerate() {
        if !same_instruction(a, b) {
            cleanup();
            return fail("C14/instruction-differs", describe("instruction differs from the pasted script", json!({"index": i, "included": format!("{:?}", a.instruction_type), "pasted": format!("{:?}", b.instruction_type)})));
        }
        let (fi, line) = prov[i];
        let want_src = if fi == 0 { root_path.clone() } else { abs(&files[fi].rel) };
        let got_src = a.meta_info.source.clone().unwrap_or_default();
        if a.meta_info.line != Some(line) || canon(&got_src) != canon(&want_src) {
            cleanup();
            return fail(
                if a.meta_info.line != Some(line) { "C14/provenance/line" } else { "C14/provenance/source" },
                describe("provenance differs", json!({"index": i, "expected": [want_src, line], "got": [got_src, a.meta_info.line]})),
            );
        }
    }

    // (3) behaviour
    hz_reset();
    let r1 = run_file(&root_path, sdk_context(), 50_000, None);
    let t1 = with_hz(|h| h.trace.clone());
    hz_reset();
    let r2 = run_text(&pasted, sdk_context(), 50_000, None);
    let t2 = with_hz(|h| h.trace.clone());
    cleanup();
    let strip = |t: &[Event]| -> Vec<Vec<String>> { t.iter().filter(|e| e.args.first().map(|a| a != "probe").unwrap_or(true)).map(|e| e.args.clone()).collect() };
    if strip(&t1) != strip(&t2) {
        return fail("C14/behaviour/trace", describe("emit trace of the included run differs from the pasted run", json!({"included": strip(&t1), "pasted": strip(&t2)})));
    }
    match (&r1.result, &r2.result) {
        (Ok(a), Ok(b)) => {
            let va: HashMap<&String, &String> = a.variables.iter().filter(|(k, _)| *k != "ps" && *k != "pl").collect();
            let vb: HashMap<&String, &String> = b.variables.iter().filter(|(k, _)| *k != "ps" && *k != "pl").collect();
            if va != vb {
                return fail("C14/behaviour/variables", describe("final variables differ", json!({"included": va, "pasted": vb})));
            }
        }
        (Err(_), Err(_)) => {}
        (a, b) => {
            return fail("C14/behaviour/outcome", describe("outcome differs", json!({"included_ok": a.is_ok(), "pasted_ok": b.is_ok()})));
        }
    }
    // (4) run-time error provenance through get_last_error_line / get_last_error_source
    let mut probes = 0;
    for e in t1.iter().filter(|e| e.args.first().map(|a| a == "probe").unwrap_or(false)) {
        probes += 1;
        let tag = &e.args[1];
        // locate the planted line
        let mut want: Option<(usize, usize)> = None;
        for (fi, f) in files.iter().enumerate() {
            for (li, l) in f.lines.iter().enumerate() {
                if let Line::Text(tx) = l {
                    if *tx == format!("trigger_error {}", tag) {
                        want = Some((fi, li + 1));
                    }
                }
            }
        }
        if let Some((fi, line)) = want {
            let want_src = if fi == 0 { root_path.clone() } else { abs(&files[fi].rel) };
            let got_line = e.args.get(2).cloned().unwrap_or_default();
            let got_src = e.args.get(3).cloned().unwrap_or_default();
            if got_line != line.to_string() || canon_like(&got_src) != canon_like(&want_src) {
                return fail(
                    if got_line != line.to_string() { "C14/runtime-error/line" } else { "C14/runtime-error/source" },
                    describe("run-time error position differs", json!({"error": tag, "expected": [want_src, line], "got": [got_src, got_line]})),
                );
            }
            if fi != 0 {
                st.class("runtime-error-inside-included-file");
            }
        }
    }
    let _ = probes;
    let twice = files.iter().enumerate().any(|(i, _)| i > 0 && files.iter().flat_map(|f| f.lines.iter()).filter(|l| matches!(l, Line::Include(ts) if ts.iter().any(|(_, x)| *x == i))).count() > 1);
    let not_first = files.iter().any(|f| f.lines.iter().skip(1).any(|l| matches!(l, Line::Include(_))));
    let nt = tree_depth >= 2 || twice || not_first;
    if st.want_sample() && tree_depth >= 2 {
        let d = describe("sample", json!(null));
        st.sample(|| d);
    }
    Verdict::Pass(if nt { Some(fp(&format!("{:?}", files))) } else { None })
}

fn canon_like(p: &str) -> String {
    // normalise a path that may no longer exist: resolve '.' and '..' textually
    let mut out: Vec<&str> = vec![];
    for part in p.split('/') {
        match part {
            "" | "." => {}
            ".." => {
                out.pop();
            }
            x => out.push(x),
        }
    }
    format!("/{}", out.join("/"))
}

fn err_parts(e: &ScriptError) -> (&'static str, Option<usize>, Option<String>) {
    match e {
        ScriptError::MissingEndQuotes(m) => ("MissingEndQuotes", m.line, m.source.clone()),
        ScriptError::ControlWithoutValidValue(m) => ("ControlWithoutValidValue", m.line, m.source.clone()),
        ScriptError::InvalidQuotesLocation(m) => ("InvalidQuotesLocation", m.line, m.source.clone()),
        ScriptError::InvalidControlLocation(m) => ("InvalidControlLocation", m.line, m.source.clone()),
        ScriptError::PreProcessNoCommandFound(m) => ("PreProcessNoCommandFound", m.line, m.source.clone()),
        ScriptError::UnknownPreProcessorCommand(m) => ("UnknownPreProcessorCommand", m.line, m.source.clone()),
        ScriptError::EmptyLabel(m) => ("EmptyLabel", m.line, m.source.clone()),
        ScriptError::MissingOutputVariableName(m) => ("MissingOutputVariableName", m.line, m.source.clone()),
        ScriptError::InvalidEqualsLocation(m) => ("InvalidEqualsLocation", m.line, m.source.clone()),
        ScriptError::ErrorReadingFile(f, _) => ("ErrorReadingFile", None, Some(f.clone())),
        ScriptError::Initialization(_) => ("Initialization", None, None),
        ScriptError::Runtime(_, m) => ("Runtime", m.as_ref().and_then(|m| m.line), m.as_ref().and_then(|m| m.source.clone())),
    }
}

fn case_q(t: &mut Tape, st: &mut Stats) -> Verdict {
    case(t, st, 3)
}
fn case_t(t: &mut Tape, st: &mut Stats) -> Verdict {
    case(t, st, 5)
}

pub fn property() -> Property {
    Property {
        id: "C14",
        rule: "acyclic include trees (depth <= 3 quick / 5 thorough, <= 9 files) written to a tmpfs scratch directory: files in nested directories (names with spaces and non-ASCII), referenced by ./relative, bare relative, ../ and absolute paths (one tree in ten has its root file reached through a symbolic link to another directory that holds decoys), directives listing several files or the same leaf file twice, at first / middle / last line (one tree in forty ends with a chain of 65..160 files each including the next, or with one directive naming 40..120 files); bodies made of emit / set / if-blocks / function definitions (called from later files) / run-time errors with get_last_error_line/source probes. Oracle: (1) parse_file(root) equals parse_text(paste(root)) instruction for instruction (own recursive inliner; directive line = no-op placeholder), (2) every instruction's meta_info is (canonical path of the file it was written to, its line there), (3) run_script_file(root) and run_script(pasted) give the same emit trace, final variables and outcome, (4) planted faults: a missing file gives ErrorReadingFile naming it, a malformed line (C08 kinds) gives the matching kind with that file and line, run-time errors in included code report the included file and its own line. Non-trivial: tree depth >= 2, a file included twice, or an include not at line 1; distinct by tree; one tree in twelve holds ONE physical file under two names on one include chain (a hard link, or a symbolic link named by an absolute path) whose relative directive resolves against the directory of the name it was reached by - an acyclic tree",
        assumptions: &[
            "cyclic trees are not generated (C07 covers the cycle probe); no line-valued jumps in bodies",
            "paths are compared after canonicalisation",
        ],
        sections: vec![
            Section {
                name: "trees",
                plan: |t| match t {
                    Tier::Quick => Plan::Random { cases: 40_000, max_len: 500 },
                    Tier::Thorough => Plan::Skip,
                },
                case: case_q,
                min_classes: &[("tree-depth-2", 500), ("file-included-twice", 100), ("include-not-at-first-line", 1000), ("planted-missing-file", 200), ("planted-malformed-line", 500), ("runtime-error-inside-included-file", 100), ("include-chain-deeper-than-64", 150), ("root-file-reached-through-a-symlink", 2000), ("included-file-named-like-its-includer-in-other-letter-case", 1000), ("directive-naming-40-or-more-files", 150), ("one-file-under-two-names-on-one-include-chain", 2000)],
            },
            Section {
                name: "deep-trees",
                plan: |t| match t {
                    Tier::Quick => Plan::Skip,
                    Tier::Thorough => Plan::Random { cases: 2_000_000, max_len: 900 },
                },
                case: case_t,
                min_classes: &[],
            },
        ],
        probes: vec![],
    }
}
