//! C15 — the command registry is a consistent name/alias map.

use crate::engine::*;
use crate::hz::*;
use duckscript::types::command::{Command, CommandInvocationContext, CommandResult, Commands};
use serde_json::json;
use std::collections::{BTreeMap, HashMap, HashSet};

#[derive(Clone)]
struct TCmd {
    name: String,
    aliases: Vec<String>,
    id: String,
}
impl Command for TCmd {
    fn name(&self) -> String {
        self.name.clone()
    }
    fn aliases(&self) -> Vec<String> {
        self.aliases.clone()
    }
    fn help(&self) -> String {
        self.id.clone()
    }
    fn clone_and_box(&self) -> Box<dyn Command> {
        Box::new(self.clone())
    }
    fn run(&self, _c: CommandInvocationContext) -> CommandResult {
        CommandResult::Continue(Some(self.id.clone()))
    }
}

#[derive(Clone, Debug)]
enum Op {
    Set(String, Vec<String>),
    Remove(String),
}

/// the model: a name table plus an alias table consulted first
#[derive(Default, Clone)]
struct Model {
    names: BTreeMap<String, String>, // name -> command identity
    aliases: BTreeMap<String, String>,
}

impl Model {
    fn resolve(&self, n: &str) -> String {
        self.aliases.get(n).cloned().unwrap_or_else(|| n.to_string())
    }
    fn get(&self, n: &str) -> Option<&String> {
        self.names.get(&self.resolve(n))
    }
    fn set(&mut self, name: &str, aliases: &[String], id: &str) -> bool {
        if self.names.contains_key(name) {
            return false;
        }
        if aliases.iter().any(|a| self.aliases.contains_key(a)) {
            return false;
        }
        self.names.insert(name.to_string(), id.to_string());
        // the command must be reachable under its own name: an alias of that spelling would shadow it
        self.aliases.remove(name);
        for a in aliases {
            self.aliases.insert(a.clone(), name.to_string());
        }
        true
    }
    fn remove(&mut self, n: &str) -> bool {
        let target = self.resolve(n);
        if self.names.remove(&target).is_some() {
            self.aliases.retain(|_, t| *t != target);
            true
        } else {
            false
        }
    }
}

fn ident(name: &str, aliases: &[String]) -> String {
    format!("{}[{}]", name, aliases.join(","))
}

fn apply_and_compare(ops: &[Op], universe: &[&str], st: &mut Stats) -> Result<(bool, bool, bool), (String, serde_json::Value)> {
    let mut m = Model::default();
    let mut c = Commands::new();
    let mut refused_then_lookup = false;
    let mut removal_through_alias = false;
    let mut collision = false;
    for (step, op) in ops.iter().enumerate() {
        let (want, got, what) = match op {
            Op::Set(name, aliases) => {
                let id = ident(name, aliases);
                if m.aliases.contains_key(name) || aliases.iter().any(|a| m.names.contains_key(a)) {
                    collision = true;
                }
                let want = m.set(name, aliases, &id);
                let got = c
                    .set(Box::new(TCmd {
                        name: name.clone(),
                        aliases: aliases.clone(),
                        id,
                    }))
                    .is_ok();
                if !want {
                    refused_then_lookup = true;
                }
                (want, got, "set")
            }
            Op::Remove(n) => {
                if m.aliases.contains_key(n) && m.get(n).is_some() {
                    removal_through_alias = true;
                }
                let want = m.remove(n);
                let got = c.remove(n);
                (want, got, "remove")
            }
        };
        let describe = |extra: serde_json::Value| json!({"history": ops.iter().map(|o| format!("{:?}", o)).collect::<Vec<_>>(), "failing_step": step, "detail": extra});
        if want != got {
            return Err((format!("C15/api/{}-return-value", what), describe(json!({"model": want, "actual": got}))));
        }
        for n in universe {
            let mg = m.get(n).cloned();
            let ag = c.get(n).map(|b| b.help());
            if mg != ag {
                return Err((format!("C15/api/lookup-after-{}", what), describe(json!({"name": n, "model": mg, "actual": ag}))));
            }
            if c.exists(n) != mg.is_some() {
                return Err(("C15/api/exists".into(), describe(json!({"name": n}))));
            }
            let gfu = c.get_for_use(n).map(|b| b.help());
            if gfu != mg {
                return Err(("C15/api/get_for_use".into(), describe(json!({"name": n, "model": mg, "actual": gfu}))));
            }
        }
        let names: Vec<String> = m.names.keys().cloned().collect();
        if c.get_all_command_names() != names {
            return Err(("C15/api/get_all_command_names".into(), describe(json!({"model": names, "actual": c.get_all_command_names()}))));
        }
        // invariant: no dangling alias
        for (a, t) in &c.aliases {
            if !c.commands.contains_key(t) {
                return Err(("C15/api/dangling-alias".into(), describe(json!({"alias": a, "target": t}))));
            }
        }
    }
    let _ = st;
    Ok((refused_then_lookup, removal_through_alias, collision))
}

// the 24 mutating operations over the 3-name universe
fn ops3() -> Vec<Op> {
    let u = ["A", "B", "C"];
    let mut v = vec![];
    for n in u {
        // alias subsets of size <= 2
        let subsets: Vec<Vec<&str>> = vec![vec![], vec!["A"], vec!["B"], vec!["C"], vec!["A", "B"], vec!["A", "C"], vec!["B", "C"]];
        for s in subsets {
            v.push(Op::Set(n.to_string(), s.iter().map(|x| x.to_string()).collect()));
        }
    }
    for n in u {
        v.push(Op::Remove(n.to_string()));
    }
    v
}

fn case_exhaustive(t: &mut Tape, st: &mut Stats, len: usize) -> Verdict {
    let mut idx = ((t.raw() as u64) << 32) | t.raw() as u64;
    let all = ops3();
    let mut ops = vec![];
    for _ in 0..len {
        ops.push(all[(idx % 24) as usize].clone());
        idx /= 24;
    }
    match apply_and_compare(&ops, &["A", "B", "C"], st) {
        Ok((r, a, c)) => {
            if r {
                st.class("refused-registration-then-lookups");
            }
            if a {
                st.class("removal-through-alias");
            }
            if c {
                st.class("name-alias-collision");
            }
            if st.want_sample() && r && a {
                let o = ops.clone();
                st.sample(|| json!({"history": o.iter().map(|x| format!("{:?}", x)).collect::<Vec<_>>()}));
            }
            Verdict::Pass(if r || a || c { Some(fp(&format!("{:?}", ops))) } else { None })
        }
        Err((sig, d)) => fail(&sig, d),
    }
}

fn case_ex4(t: &mut Tape, st: &mut Stats) -> Verdict {
    case_exhaustive(t, st, 4)
}
fn case_ex5(t: &mut Tape, st: &mut Stats) -> Verdict {
    case_exhaustive(t, st, 5)
}

fn case_random_api(t: &mut Tape, st: &mut Stats) -> Verdict {
    let u = ["a", "b", "c", "d", "e", "f"];
    let n = 1 + t.len(39);
    let mut ops = vec![];
    for _ in 0..n {
        if t.chance(2, 3) {
            let name = t.pick(&u).to_string();
            let k = t.below(4);
            let mut al: Vec<String> = vec![];
            for _ in 0..k {
                let a = t.pick(&u).to_string();
                if !al.contains(&a) {
                    al.push(a);
                }
            }
            ops.push(Op::Set(name, al));
        } else {
            ops.push(Op::Remove(t.pick(&u).to_string()));
        }
    }
    match apply_and_compare(&ops, &u, st) {
        Ok((r, a, c)) => {
            if r {
                st.class("refused-registration-then-lookups");
            }
            if a {
                st.class("removal-through-alias");
            }
            if c {
                st.class("name-alias-collision");
            }
            Verdict::Pass(if r || a || c { Some(fp(&format!("{:?}", ops))) } else { None })
        }
        Err((sig, d)) => fail(&sig, d),
    }
}

/// (api-large) hundreds of names: 300..700 registrations / removals over a universe of 150..400 names
fn case_large_api(t: &mut Tape, st: &mut Stats) -> Verdict {
    let size = 150 + t.below(251);
    let names: Vec<String> = (0..size).map(|i| format!("n{}", i)).collect();
    let u: Vec<&str> = names.iter().map(|s| s.as_str()).collect();
    let n = 300 + t.below(401);
    let mut ops = vec![];
    for _ in 0..n {
        if t.chance(3, 4) {
            let name = t.pick(&u).to_string();
            let k = t.below(5);
            let mut al: Vec<String> = vec![];
            for _ in 0..k {
                let a = t.pick(&u).to_string();
                if !al.contains(&a) {
                    al.push(a);
                }
            }
            ops.push(Op::Set(name, al));
        } else {
            ops.push(Op::Remove(t.pick(&u).to_string()));
        }
    }
    match apply_and_compare(&ops, &u, st) {
        Ok(_) => {
            st.class("registry-of-hundreds-of-names");
            Verdict::Pass(Some(fp(&format!("{:?}", ops))))
        }
        Err((sig, d)) => fail(&sig, d),
    }
}

// ---------------------------------------------------------------------------------------------
// script level
// ---------------------------------------------------------------------------------------------

#[derive(Clone, Debug)]
enum SOp {
    Alias(String, String),  // alias <name> cap <tag>
    /// alias <name> unalias <other>: an alias whose invocation removes an alias (possibly itself)
    AliasUnalias(String, String),
    Unalias(String),
    RemoveCommand(String),
    IsDefined(String),
    Fn(String, u32),        // fn <name> / emit fnbody <tag> / end
    Invoke(String),
}

const SNAMES: &[&str] = &["foo", "bar", "baz", "echo", "set", "std::Echo", "cap2", "noop"];

struct SModel {
    reg: Model,
    alias_created: HashSet<String>,
    /// what invoking an identity does: Alias(tag) / Fn(tag) / Other
    behaviour: HashMap<String, (u8, String)>,
}

/// what `unalias n` does to the model (documented: removes a previously defined alias)
fn model_unalias(m: &mut SModel, n: &str, classes: &mut HashSet<&'static str>) -> bool {
    if m.alias_created.contains(n) && m.reg.get(n).map(|id| id.starts_with("alias:")).unwrap_or(false) && !m.reg.aliases.contains_key(n) {
        m.reg.remove(n);
        m.alias_created.remove(n);
        true
    } else if m.reg.aliases.contains_key(n) {
        m.reg.aliases.remove(n);
        classes.insert("unalias-of-registry-alias");
        true
    } else {
        false
    }
}

fn case_script(t: &mut Tape, st: &mut Stats) -> Verdict {
    let base = sdk_context();
    let mut m = SModel {
        reg: Model::default(),
        alias_created: HashSet::new(),
        behaviour: HashMap::new(),
    };
    for (n, c) in &base.commands.commands {
        m.reg.names.insert(n.clone(), format!("sdk:{}", c.name()));
    }
    for (a, target) in &base.commands.aliases {
        m.reg.aliases.insert(a.clone(), target.clone());
    }
    let n = 1 + t.len(24);
    let mut ops = vec![];
    let mut tag = 0u32;
    for _ in 0..n {
        let name = t.pick(SNAMES).to_string();
        tag += 1;
        ops.push(match t.weighted(&[4, 3, 3, 2, 3, 4, 1]) {
            6 => {
                let other = if t.flip() { name.clone() } else { t.pick(SNAMES).to_string() };
                SOp::AliasUnalias(name, other)
            }
            0 => SOp::Alias(name, format!("t{}", tag)),
            1 => SOp::Unalias(name),
            2 => SOp::RemoveCommand(name),
            3 => SOp::IsDefined(name),
            4 => SOp::Fn(name, tag),
            _ => SOp::Invoke(name),
        });
    }
    // one history in four is run as two scripts, the second on the context returned by the first (which may end
    // with `exit`): the registry and the alias bookkeeping live in the context
    let split: Option<usize> = if n >= 2 && t.chance(1, 4) { Some(1 + t.below(n - 1)) } else { None };
    let first_ends_with_exit = split.is_some() && t.chance(2, 3);
    let mut first_script = String::new();
    let mut fns_of_first_run: HashSet<String> = HashSet::new();
    let mut fn_names_of_first_run: HashSet<String> = HashSet::new();
    // render + model
    let mut script = String::new();
    let mut expected_vars: Vec<(String, Option<String>)> = vec![];
    let mut expected_trace: Vec<Vec<String>> = vec![];
    let mut expect_fail_line: Option<usize> = None;
    let mut line = 0usize;
    let mut classes: HashSet<&'static str> = HashSet::new();
    for (i, op) in ops.iter().enumerate() {
        let out = format!("o{}", i);
        if split == Some(i) {
            first_script = std::mem::take(&mut script);
            if first_ends_with_exit {
                first_script.push_str("exit\n");
            }
            line = 0;
            fns_of_first_run = m.behaviour.iter().filter(|(_, (k, _))| *k == 1).map(|(id, _)| id.clone()).collect();
            fn_names_of_first_run = ops[..i].iter().filter_map(|o| if let SOp::Fn(n, _) = o { Some(n.clone()) } else { None }).collect();
        }
        match op {
            SOp::Alias(n, tg) => {
                script.push_str(&format!("{} = alias {} hz_capture {}\n", out, n, tg));
                line += 1;
                // `alias` itself must be reachable
                match m.reg.get("alias").cloned() {
                    Some(id) if id.starts_with("sdk:") => {
                        let id = format!("alias:{}", tg);
                        if m.reg.aliases.contains_key(n) {
                            classes.insert("alias-over-existing-alias-name");
                        }
                        if m.reg.set(n, &[], &id) {
                            m.alias_created.insert(n.clone());
                            m.behaviour.insert(id, (0, tg.clone()));
                            expected_vars.push((out, Some("true".into())));
                        } else {
                            classes.insert("refused-alias");
                            expected_vars.push((out, Some("false".into())));
                        }
                    }
                    _ => return Verdict::Discard("a command needed by the history was removed"),
                }
            }
            SOp::AliasUnalias(n, other) => {
                script.push_str(&format!("{} = alias {} unalias {}\n", out, n, other));
                line += 1;
                match m.reg.get("alias").cloned() {
                    Some(id) if id.starts_with("sdk:") => {
                        let id = format!("alias:u{}:{}", i, other);
                        if m.reg.set(n, &[], &id) {
                            m.alias_created.insert(n.clone());
                            m.behaviour.insert(id, (2, other.clone()));
                            expected_vars.push((out, Some("true".into())));
                            classes.insert("alias-that-removes-an-alias");
                        } else {
                            classes.insert("refused-alias");
                            expected_vars.push((out, Some("false".into())));
                        }
                    }
                    _ => return Verdict::Discard("a command needed by the history was removed"),
                }
            }
            SOp::Unalias(n) => {
                script.push_str(&format!("{} = unalias {}\n", out, n));
                line += 1;
                if !m.reg.get("unalias").map(|s| s.starts_with("sdk:")).unwrap_or(false) {
                    return Verdict::Discard("a command needed by the history was removed");
                }
                let r = model_unalias(&mut m, n, &mut classes);
                expected_vars.push((out, Some(r.to_string())));
            }
            SOp::RemoveCommand(n) => {
                script.push_str(&format!("{} = remove_command {}\n", out, n));
                line += 1;
                if !m.reg.get("remove_command").map(|s| s.starts_with("sdk:")).unwrap_or(false) {
                    return Verdict::Discard("a command needed by the history was removed");
                }
                if m.reg.aliases.contains_key(n) {
                    classes.insert("remove-through-alias");
                }
                let target = m.reg.resolve(n);
                let r = m.reg.remove(n);
                if r {
                    m.alias_created.remove(&target);
                }
                expected_vars.push((out, Some(r.to_string())));
            }
            SOp::IsDefined(n) => {
                script.push_str(&format!("{} = is_command_defined {}\n", out, n));
                line += 1;
                if !m.reg.get("is_command_defined").map(|s| s.starts_with("sdk:")).unwrap_or(false) {
                    return Verdict::Discard("a command needed by the history was removed");
                }
                expected_vars.push((out, Some(m.reg.get(n).is_some().to_string())));
            }
            SOp::Fn(n, tg) => {
                script.push_str(&format!("fn {}\n    emit fnbody t{}\nend\n", n, tg));
                line += 3;
                if !["fn", "end", "emit"].iter().all(|c| m.reg.get(c).map(|s| s.starts_with("sdk:")).unwrap_or(false)) {
                    return Verdict::Discard("a command needed by the history was removed");
                }
                if fn_names_of_first_run.contains(n) {
                    // a definition record of the first run (accepted or refused) is keyed by line numbers of the first script
                    return Verdict::Discard("name of a function definition of the first run defined again in the second run");
                }
                let id = format!("fn:t{}", tg);
                if m.reg.set(n, &[], &id) {
                    m.behaviour.insert(id, (1, format!("t{}", tg)));
                    classes.insert("function-defined");
                } else {
                    // a refused definition reports an error and the body lines run in place
                    classes.insert("refused-function-definition");
                    expected_trace.push(vec!["fnbody".into(), format!("t{}", tg)]);
                }
            }
            SOp::Invoke(n) => {
                // an alias of `unalias <x>` is invoked without an argument (unalias takes exactly one)
                let bare = m.reg.get(n).and_then(|id| m.behaviour.get(id)).map(|b| b.0 == 2).unwrap_or(false);
                if bare {
                    script.push_str(&format!("{} = {}\n", out, n));
                } else {
                    script.push_str(&format!("{} = {} arg{}\n", out, n, i));
                }
                line += 1;
                match m.reg.get(n).cloned() {
                    None => {
                        expect_fail_line = Some(line);
                        classes.insert("invocation-of-undefined-name");
                        break;
                    }
                    Some(id) => match m.behaviour.get(&id) {
                        Some((0, tg)) => {
                            if m.reg.get("hz_capture").map(|s| s.as_str()) == Some("sdk:hz::Cap") {
                                expected_trace.push(vec!["cap".into(), tg.clone(), format!("arg{}", i)]);
                                expected_vars.push((out, Some("true".into())));
                                classes.insert("invocation-through-alias-command");
                            } else {
                                // the aliased command is gone: the alias reports an error
                                expected_vars.push((out, Some("false".into())));
                                classes.insert("invocation-of-alias-whose-target-was-removed");
                            }
                        }
                        Some((2, target)) => {
                            // runs `unalias <target> arg`: unalias looks at its first argument
                            if !m.reg.get("unalias").map(|s| s.starts_with("sdk:")).unwrap_or(false) {
                                expected_vars.push((out, Some("false".into())));
                            } else {
                                let target = target.clone();
                                if target == *n {
                                    classes.insert("alias-removing-itself-while-it-runs");
                                }
                                let r = model_unalias(&mut m, &target, &mut classes);
                                expected_vars.push((out, Some(r.to_string())));
                            }
                        }
                        Some((_, tg)) => {
                            if fns_of_first_run.contains(&id) {
                                // its body lines belong to the first script
                                return Verdict::Discard("function of the first run invoked in the second run");
                            }
                            expected_trace.push(vec!["fnbody".into(), tg.clone()]);
                            expected_vars.push((out, None));
                            classes.insert("invocation-of-function");
                        }
                        None => {
                            // an SDK command: only a few harmless ones are invoked
                            match id.as_str() {
                                "sdk:std::Echo" | "sdk:std::Noop" => expected_vars.push((out.clone(), if id == "sdk:std::Echo" { Some("1".into()) } else { None })),
                                "sdk:std::Set" => expected_vars.push((out.clone(), Some(format!("arg{}", i)))),
                                "sdk:hz::Cap" => {
                                    expected_trace.push(vec!["cap".into(), format!("arg{}", i)]);
                                    expected_vars.push((out.clone(), Some("true".into())));
                                }
                                _ => return Verdict::Discard("invocation of an SDK command outside the harmless set"),
                            }
                        }
                    },
                }
            }
        }
    }
    for c in &classes {
        st.class(c);
    }
    hz_reset();
    let out = match split {
        None => run_text(&script, base, 20_000, None),
        Some(_) => {
            if first_script.is_empty() {
                // the history stops (invocation of an undefined name) before the split was reached
                return Verdict::Discard("history fails before the split");
            }
            st.class(if first_ends_with_exit { "two-runs-first-ends-with-exit" } else { "two-runs-first-reaches-its-last-line" });
            let o1 = run_text(&first_script, base, 20_000, None);
            match o1.result {
                Ok(ctx) => run_text(&script, ctx, 20_000, None),
                Err(e) => return fail("C15/script/two-runs/first-run-failed", json!({"first_script": first_script, "error": format!("{:?}", e)})),
            }
        }
    };
    let script = if split.is_some() { format!("{}# ---- second run (on the context returned by the first) ----\n{}", first_script, script) } else { script };
    let trace: Vec<Vec<String>> = with_hz(|h| {
        h.trace
            .iter()
            .map(|e| {
                let mut v = vec![e.cmd.clone()];
                v.extend(e.args.iter().cloned());
                if v[0] == "emit" {
                    v.remove(0);
                }
                v
            })
            .collect()
    });
    let desc = |what: &str, extra: serde_json::Value| json!({"script": script, "mismatch": what, "detail": extra, "expected_trace": expected_trace, "actual_trace": trace});
    match (&out.result, expect_fail_line) {
        (Ok(ctx), None) => {
            for (k, v) in &expected_vars {
                if ctx.variables.get(k) != v.as_ref() {
                    let what = script.lines().find(|l| l.starts_with(&format!("{} = ", k))).unwrap_or("").split(' ').nth(2).unwrap_or("?").to_string();
                    return fail(&format!("C15/script/{}-output", what), desc("output differs", json!({"variable": k, "model": v, "actual": ctx.variables.get(k)})));
                }
            }
            // registry consistency at the end
            for (a, tgt) in &ctx.commands.aliases {
                if !ctx.commands.commands.contains_key(tgt) {
                    return fail("C15/script/dangling-alias", desc("dangling alias", json!({"alias": a, "target": tgt})));
                }
            }
            for n in SNAMES {
                if ctx.commands.exists(n) != m.reg.get(n).is_some() {
                    return fail("C15/script/final-reachability", desc("reachability differs", json!({"name": n, "model": m.reg.get(n).is_some()})));
                }
            }
        }
        (Err(duckscript::types::error::ScriptError::Runtime(_, Some(meta))), Some(l)) => {
            if meta.line != Some(l) {
                return fail("C15/script/failure-line", desc("failure line differs", json!({"model": l, "actual": format!("{:?}", meta.line)})));
            }
        }
        (r, e) => {
            let rs = match r {
                Ok(_) => "Ok".to_string(),
                Err(e) => format!("{:?}", e),
            };
            return fail("C15/script/outcome", desc("outcome differs", json!({"model_fail_line": e, "actual": rs})));
        }
    }
    if trace != expected_trace {
        return fail("C15/script/invocation-trace", desc("invocations differ", json!(null)));
    }
    if st.want_sample() && classes.len() >= 3 {
        let s = script.clone();
        st.sample(|| json!({"script": s}));
    }
    Verdict::Pass(if classes.len() >= 2 { Some(fp(&script)) } else { None })
}

pub fn property() -> Property {
    Property {
        id: "C15",
        rule: "(api) EXHAUSTIVE enumeration of all histories of the 24 mutating operations (set of a command named A/B/C with any alias subset of size <= 2, remove A/B/C) up to length 4 (quick, 331,776) / 5 (thorough, 7,962,624); after every step the return value, get/exists/get_for_use for the whole universe, get_all_command_names and the no-dangling-alias invariant are compared with a name-table-plus-alias-table model; random histories up to length 40 over 6 names and alias sets <= 3; (api-large) 300..700 registrations / removals over a universe of 150..400 names, all lookups after every step; (script) random sequences of alias / unalias / remove_command / is_command_defined / function definitions / invocations over user names and real SDK names, compared with the same model seeded from the live registry; one history in four is run as two scripts, the second on the context returned by the first (which ends at its last line or with exit). Non-trivial: a refused registration followed by lookups, a removal through an alias or a name/alias collision; distinct by history",
        assumptions: &[
            "unalias is modelled from its help: it removes a command created by alias (and not removed since), or a registry alias entry",
            "script histories that remove a command the history itself needs (alias, fn, emit ...) are discarded",
        ],
        sections: vec![
            Section {
                name: "api-exhaustive-4",
                plan: |t| match t {
                    Tier::Quick => Plan::Exhaustive { count: 24u64.pow(4) },
                    Tier::Thorough => Plan::Skip,
                },
                case: case_ex4,
                min_classes: &[("refused-registration-then-lookups", 1000), ("removal-through-alias", 1000), ("name-alias-collision", 1000)],
            },
            Section {
                name: "api-exhaustive-5",
                plan: |t| match t {
                    Tier::Quick => Plan::Skip,
                    Tier::Thorough => Plan::Exhaustive { count: 24u64.pow(5) },
                },
                case: case_ex5,
                min_classes: &[],
            },
            Section {
                name: "api-random",
                plan: |t| match t {
                    Tier::Quick => Plan::Random { cases: 100_000, max_len: 240 },
                    Tier::Thorough => Plan::Random { cases: 8_000_000, max_len: 240 },
                },
                case: case_random_api,
                min_classes: &[],
            },
            Section {
                name: "api-large",
                plan: |t| match t {
                    Tier::Quick => Plan::Random { cases: 200, max_len: 4000 },
                    Tier::Thorough => Plan::Random { cases: 6_000, max_len: 4000 },
                },
                case: case_large_api,
                min_classes: &[("registry-of-hundreds-of-names", 150)],
            },
            Section {
                name: "script",
                plan: |t| match t {
                    Tier::Quick => Plan::Random { cases: 150_000, max_len: 120 },
                    Tier::Thorough => Plan::Random { cases: 3_200_000, max_len: 160 },
                },
                case: case_script,
                min_classes: &[("refused-alias", 500), ("function-defined", 500), ("invocation-of-function", 300), ("remove-through-alias", 500), ("two-runs-first-ends-with-exit", 2000), ("alias-removing-itself-while-it-runs", 300)],
            },
        ],
        probes: vec![],
    }
}
