//! C17 — encodings round-trip.

use crate::engine::*;
use crate::hz::*;
use crate::props::c16::{exec, show};
use duckscript::types::command::CommandResult;
use duckscript::types::runtime::{Context, StateValue};
use serde_json::{json, Map, Value};
use std::collections::BTreeMap;

fn val(r: &CommandResult) -> Option<Option<String>> {
    match r {
        CommandResult::Continue(v) => Some(v.clone()),
        _ => None,
    }
}

/// like exec, but the instruction carries an output variable (json_parse only builds data when it has one)
fn exec_out(ctx: &mut Context, out: &str, cmd: &str, args: &[String]) -> CommandResult {
    use duckscript::types::instruction::{Instruction, InstructionMetaInfo, InstructionType, ScriptInstruction};
    let mut si = ScriptInstruction::new();
    si.command = Some(cmd.to_string());
    si.output = Some(out.to_string());
    si.arguments = Some(args.to_vec());
    let ins = Instruction { meta_info: InstructionMetaInfo::new(), instruction_type: InstructionType::Script(si) };
    let (mut env, _o) = make_env(None);
    let (r, _) = duckscript::runner::run_instruction(&mut ctx.commands, &mut ctx.variables, &mut ctx.state, &vec![], ins, 0, &mut env);
    r
}

fn handles(ctx: &Context) -> usize {
    match ctx.state.get("handles") {
        Some(StateValue::SubState(m)) => m.len(),
        _ => 0,
    }
}

fn arb_text(t: &mut Tape, max: usize) -> String {
    let n = t.len(max);
    let mut s = String::new();
    for _ in 0..n {
        match t.weighted(&[4, 3, 2]) {
            0 => s.push_str(t.pick(crate::gen::PLAIN)),
            1 => s.push_str(t.pick(crate::gen::HAZ)),
            _ => s.push(crate::gen::any_char(t)),
        }
    }
    s
}

fn b64_ref(data: &[u8]) -> String {
    const A: &[u8] = b"ABCDEFGHIJKLMNOPQRSTUVWXYZabcdefghijklmnopqrstuvwxyz0123456789+/";
    let mut out = String::new();
    for chunk in data.chunks(3) {
        let b = [chunk[0], *chunk.get(1).unwrap_or(&0), *chunk.get(2).unwrap_or(&0)];
        let n = ((b[0] as u32) << 16) | ((b[1] as u32) << 8) | b[2] as u32;
        out.push(A[(n >> 18) as usize & 63] as char);
        out.push(A[(n >> 12) as usize & 63] as char);
        out.push(if chunk.len() > 1 { A[(n >> 6) as usize & 63] as char } else { '=' });
        out.push(if chunk.len() > 2 { A[n as usize & 63] as char } else { '=' });
    }
    out
}

fn case_text(t: &mut Tape, st: &mut Stats) -> Verdict {
    let mut ctx = sdk_context();
    let mut text = arb_text(t, 12);
    if t.chance(1, 60) {
        // a long text: a short unit (or a single character) repeated up to 4 KiB .. 70 KiB, every length modulo 3
        let unit = if text.is_empty() || t.flip() { t.pick(&["a", "é", "日", "😀", "ab\n"]).to_string() } else { text.clone() };
        let span = if t.chance(1, 4) { 66_000 } else { 5_000 };
        let target = 4000 + t.below(span);
        let mut long = String::with_capacity(target + unit.len());
        while long.len() < target {
            long.push_str(&unit);
        }
        long.push_str(&"x".repeat(t.below(3)));
        text = long;
        st.class("text-longer-than-4096-bytes");
    }
    let before = handles(&ctx);
    ctx.variables.insert("v".into(), text.clone());
    let nt = text.chars().any(|c| c.len_utf8() > 1 || c.is_control());
    if text.is_empty() {
        st.class("empty-text");
    }
    if text.contains('\0') {
        st.class("text-with-nul");
    }
    if text.starts_with('\u{feff}') {
        st.class("text-starting-with-bom");
    }
    let d = |what: &str, got: String| json!({"text": text, "step": what, "got": got});
    let h = match val(&exec(&mut ctx, "string_to_bytes", &["${v}".to_string()])) {
        Some(Some(h)) => h,
        other => return fail("C17/text/string_to_bytes", d("string_to_bytes", format!("{:?}", other))),
    };
    let back = exec(&mut ctx, "bytes_to_string", &[h.clone()]);
    if val(&back) != Some(Some(text.clone())) {
        return fail("C17/text/bytes-roundtrip", d("bytes_to_string(string_to_bytes(text))", show(&back)));
    }
    let e = match val(&exec(&mut ctx, "base64_encode", &[h.clone()])) {
        Some(Some(e)) => e,
        other => return fail("C17/text/base64_encode", d("base64_encode", format!("{:?}", other))),
    };
    if e != b64_ref(text.as_bytes()) {
        return fail("C17/text/base64-encoding-differs-from-reference", d("base64_encode", e));
    }
    let h2 = match val(&exec(&mut ctx, "base64_decode", &[e.clone()])) {
        Some(Some(h)) => h,
        other => return fail("C17/text/base64_decode", d("base64_decode", format!("{:?}", other))),
    };
    let back2 = exec(&mut ctx, "bytes_to_string", &[h2.clone()]);
    if val(&back2) != Some(Some(text.clone())) {
        return fail("C17/text/base64-roundtrip", d("bytes_to_string(base64_decode(base64_encode(..)))", show(&back2)));
    }
    let _ = exec(&mut ctx, "release", &[h]);
    let _ = exec(&mut ctx, "release", &[h2]);
    if handles(&ctx) != before {
        return fail("C17/text/handles-leaked", d("release", format!("{} handles, {} before", handles(&ctx), before)));
    }
    if st.want_sample() && nt {
        let tx = text.clone();
        st.sample(|| json!({"text": tx}));
    }
    Verdict::Pass(if nt { Some(fp(&text)) } else { None })
}

fn hex_ref(n: u64) -> String {
    let mut s = String::new();
    let mut x = n;
    if x == 0 {
        s.push('0');
    }
    while x > 0 {
        s.insert(0, b"0123456789abcdef"[(x % 16) as usize] as char);
        x /= 16;
    }
    format!("0x{}", s)
}

fn case_hex(t: &mut Tape, _st: &mut Stats) -> Verdict {
    let mut ctx = sdk_context();
    let n: u64 = match t.below(8) {
        0 => 0,
        1 => 1u64 << 63,
        2 => u64::MAX,
        3 => (1u64 << 63) - 1,
        4 => t.below(300) as u64,
        5 => ((t.raw() as u64) << 32) | t.raw() as u64,
        6 => 1u64 << t.below(64),
        _ => t.raw() as u64,
    };
    let e = match val(&exec(&mut ctx, "hex_encode", &[n.to_string()])) {
        Some(Some(e)) => e,
        other => return fail("C17/hex/encode", json!({"n": n, "got": format!("{:?}", other)})),
    };
    if e != hex_ref(n) {
        return fail("C17/hex/encoding-differs-from-reference", json!({"n": n, "got": e, "expected": hex_ref(n)}));
    }
    let back = exec(&mut ctx, "hex_decode", &[e.clone()]);
    if val(&back) != Some(Some(n.to_string())) {
        return fail("C17/hex/roundtrip", json!({"n": n, "encoded": e, "decoded": show(&back)}));
    }
    Verdict::Pass(Some(n))
}

// ---------------------------------------------------------------------------------------------
// JSON
// ---------------------------------------------------------------------------------------------

const KEYS: &[&str] = &["a", "b", "name", "a.b", "a b", "a[0]", "x\"y", "é", "", "length", "k.length", "日本", "a/b", "\\", "0", "[", "]", ".", "null", "😀"];

fn gen_json(t: &mut Tape, depth: usize, width: usize, st: &mut Stats) -> Value {
    let leaf = depth == 0 || t.chance(2, 5);
    if leaf {
        match t.below(7) {
            0 => Value::Null,
            1 => Value::Bool(t.flip()),
            2 => json!(t.range(-1_000_000, 1_000_000)),
            3 => match t.below(4) {
                0 => json!(u64::MAX),
                1 => json!(i64::MIN),
                2 => json!(9007199254740993u64),
                _ => json!(i64::MAX),
            },
            4 => {
                // simple decimals with exact short representation
                let v = t.range(-4000, 4000) as f64 / 8.0;
                json!(v)
            }
            _ => {
                if t.chance(1, 12) {
                    // text that merely looks like something else: a handle, a number, a keyword of the format
                    st.class("json-string-that-looks-like-a-handle-or-a-scalar");
                    Value::String(t.pick(&["handle:", "handle:17", "handle:x y", "handle", "true", "null", "12", "-0", "1e3", "[]", "{}"]).to_string())
                } else {
                    Value::String(arb_text(t, 4))
                }
            }
        }
    } else if t.flip() {
        let n = t.len(width);
        Value::Array((0..n).map(|_| gen_json(t, depth - 1, width, st)).collect())
    } else {
        let n = t.len(width);
        let mut m = Map::new();
        for _ in 0..n {
            let k = if t.chance(3, 4) { t.pick(KEYS).to_string() } else { arb_text(t, 2) };
            if k.contains('.') || k.contains(' ') || k.contains('[') || k.contains('"') {
                st.class("json-hazardous-key");
            }
            m.insert(k, gen_json(t, depth - 1, width, st));
        }
        Value::Object(m)
    }
}

fn number_literal(n: &serde_json::Number) -> String {
    n.to_string()
}

fn normalise(v: &Value) -> Option<Value> {
    match v {
        Value::Null => None,
        Value::Bool(b) => Some(Value::String(b.to_string())),
        Value::Number(n) => Some(Value::String(number_literal(n))),
        Value::String(s) => Some(Value::String(s.clone())),
        Value::Array(a) => Some(Value::Array(a.iter().filter_map(normalise).collect())),
        Value::Object(m) => {
            let mut o = Map::new();
            for (k, x) in m {
                if let Some(n) = normalise(x) {
                    o.insert(k.clone(), n);
                }
            }
            Some(Value::Object(o))
        }
    }
}

fn jdepth(v: &Value) -> usize {
    match v {
        Value::Array(a) => 1 + a.iter().map(jdepth).max().unwrap_or(0),
        Value::Object(m) => 1 + m.values().map(jdepth).max().unwrap_or(0),
        _ => 0,
    }
}

fn has_null(v: &Value) -> bool {
    match v {
        Value::Null => true,
        Value::Array(a) => a.iter().any(has_null),
        Value::Object(m) => m.values().any(has_null),
        _ => false,
    }
}

fn looks_like_handle(v: &Value) -> bool {
    match v {
        // only strings that could be a live handle (the prefix followed by a long token); short look-alikes are data
        Value::String(s) => s.starts_with("handle:") && s.len() >= 20,
        Value::Array(a) => a.iter().any(looks_like_handle),
        Value::Object(m) => m.values().any(looks_like_handle),
        _ => false,
    }
}

fn case_json(t: &mut Tape, st: &mut Stats, depth: usize, width: usize) -> Verdict {
    let mut ctx = sdk_context();
    let mut doc = gen_json(t, depth, width, st);
    if t.chance(1, 80) {
        if t.flip() {
            // deep: 65..120 levels of arrays / objects around a small document (below the JSON reader's own limit of 128)
            let levels = 65 + t.below(56);
            let mut v = gen_json(t, 1, 2, st);
            if v.is_null() {
                v = Value::String("leaf".into());
            }
            for i in 0..levels {
                v = if t.flip() { Value::Array(vec![Value::String(format!("l{}", i)), v]) } else { serde_json::json!({ "k": v, "n": i.to_string() }) };
            }
            doc = v;
            st.class("json-nested-deeper-than-64");
        } else {
            // wide: an array or object of 1000..4000 members
            let n = 1000 + t.below(3000);
            doc = if t.flip() { Value::Array((0..n).map(|i| Value::String(format!("v{}", i))).collect()) } else { Value::Object((0..n).map(|i| (format!("key{}", i), Value::String(i.to_string()))).collect()) };
            st.class("json-with-over-1000-members");
        }
    }
    if doc.is_null() {
        return Verdict::Discard("root-level null");
    }
    if looks_like_handle(&doc) {
        return Verdict::Discard("string leaf spelled like a handle");
    }
    let text = if t.flip() { doc.to_string() } else { serde_json::to_string_pretty(&doc).unwrap() };
    let before = handles(&ctx);
    // sometimes the output variable already holds the collection of an earlier parse, which the script kept elsewhere
    let mut earlier: Option<(Value, String, String)> = None;
    if t.chance(1, 3) {
        let doc0 = gen_json(t, 2, 3, st);
        if !doc0.is_null() && !looks_like_handle(&doc0) {
            let text0 = doc0.to_string();
            ctx.variables.insert("v".into(), text0.clone());
            if let CommandResult::Continue(Some(r0)) = exec_out(&mut ctx, "root", "json_parse", &["--collection".to_string(), "${v}".to_string()]) {
                ctx.variables.insert("root".into(), r0.clone());
                ctx.variables.insert("kept".into(), r0.clone());
                if r0.starts_with("handle:") {
                    st.class("json-output-variable-holds-an-earlier-document");
                    earlier = Some((doc0, text0, r0));
                }
            }
        }
    }
    ctx.variables.insert("v".into(), text.clone());
    let root = match exec_out(&mut ctx, "root", "json_parse", &["--collection".to_string(), "${v}".to_string()]) {
        CommandResult::Continue(Some(r)) => r,
        other => return fail("C17/json/parse", json!({"document": text, "got": show(&other)})),
    };
    ctx.variables.insert("root".into(), root.clone());
    let enc = match exec(&mut ctx, "json_encode", &["--collection".to_string(), "${root}".to_string()]) {
        CommandResult::Continue(Some(r)) => r,
        other => return fail("C17/json/encode", json!({"document": text, "got": show(&other)})),
    };
    let want = normalise(&doc).unwrap();
    let got: Value = match serde_json::from_str(&enc) {
        Ok(v) => v,
        Err(e) => return fail("C17/json/encode-output-not-json", json!({"document": text, "encoded": enc, "error": e.to_string()})),
    };
    if got != want {
        return fail("C17/json/roundtrip", json!({"document": text, "encoded": enc, "expected": want}));
    }
    if let Some((doc0, text0, r0)) = earlier {
        let enc0 = match exec(&mut ctx, "json_encode", &["--collection".to_string(), "${kept}".to_string()]) {
            CommandResult::Continue(Some(r)) => r,
            other => return fail("C17/json/earlier-document/encode", json!({"earlier_document": text0, "later_document": text, "got": show(&other)})),
        };
        let want0 = normalise(&doc0).unwrap();
        if serde_json::from_str::<Value>(&enc0).ok() != Some(want0.clone()) {
            return fail("C17/json/earlier-document/roundtrip", json!({"earlier_document": text0, "later_document_parsed_into_the_same_variable": text, "encoded": enc0, "expected": want0}));
        }
        let _ = exec(&mut ctx, "release", &["-r".to_string(), r0]);
    }
    let _ = exec(&mut ctx, "release", &["-r".to_string(), root]);
    if handles(&ctx) != before {
        return fail("C17/json/handles-leaked", json!({"document": text, "handles_after": handles(&ctx), "handles_before": before}));
    }
    let d = jdepth(&doc);
    if d >= 2 {
        st.class("json-depth-2");
    }
    if has_null(&doc) {
        st.class("json-with-null");
    }
    let nt = d >= 2 && has_null(&doc);
    if st.want_sample() && nt {
        let tx = text.clone();
        st.sample(|| json!({"document": tx}));
    }
    Verdict::Pass(if nt { Some(fp(&text)) } else { None })
}

fn case_json_q(t: &mut Tape, st: &mut Stats) -> Verdict {
    case_json(t, st, 4, 5)
}
fn case_json_t(t: &mut Tape, st: &mut Stats) -> Verdict {
    case_json(t, st, 6, 8)
}

// ---------------------------------------------------------------------------------------------
// properties
// ---------------------------------------------------------------------------------------------

fn prop_text(t: &mut Tape) -> String {
    let n = t.len(5);
    let mut s = String::new();
    for _ in 0..n {
        match t.weighted(&[4, 4, 1]) {
            0 => s.push_str(t.pick(&["a", "b", "key", "v", "1", "x.y", "A"])),
            1 => s.push_str(t.pick(&["=", ":", "#", "!", " ", "  ", "\n", "\t", "\\", "é", "ß", "日本", "😀", "\r", "\u{a0}", "\"", "'", "%", "$", "{", "\\n", "\\u0041", "\u{c}", "\u{ff}", "\u{80}", "\u{2028}", "\u{feff}", "\u{feff}", "\u{85}"])),
            _ => {
                let c = crate::gen::any_char(t);
                s.push(c)
            }
        }
    }
    s
}

fn case_properties(t: &mut Tape, st: &mut Stats) -> Verdict {
    let mut ctx = sdk_context();
    let n = t.len(5);
    let mut m: BTreeMap<String, String> = BTreeMap::new();
    for _ in 0..n {
        m.insert(prop_text(t), prop_text(t));
    }
    // sometimes a value (or key) is the text of the handle of another live collection: in a properties map it is text
    let other = if t.chance(1, 8) { val(&exec(&mut ctx, "array", &["x".to_string()])).flatten() } else { None };
    if let Some(o) = &other {
        if t.flip() {
            m.insert("ref".to_string(), o.clone());
        } else {
            m.insert(o.clone(), "named-by-a-handle".to_string());
        }
        st.class("properties-value-or-key-that-is-a-live-handle");
    }
    let before = handles(&ctx);
    let h = val(&exec(&mut ctx, "map", &[])).flatten().unwrap();
    for (i, (k, v)) in m.iter().enumerate() {
        ctx.variables.insert(format!("k{}", i), k.clone());
        ctx.variables.insert(format!("v{}", i), v.clone());
        let r = exec(&mut ctx, "map_put", &[h.clone(), format!("${{k{}}}", i), format!("${{v{}}}", i)]);
        if val(&r) != Some(Some("true".into())) {
            return fail("C17/properties/map_put", json!({"key": k, "value": v, "got": show(&r)}));
        }
    }
    let all: String = m.iter().map(|(k, v)| format!("{}{}", k, v)).collect();
    if all.chars().any(|c| (c as u32) < 0x20 && c != '\n' && c != '\t' && c != '\r' && c != '\u{c}') {
        st.class("properties-with-control-character");
    }
    if all.chars().any(|c| (0x80..=0xff).contains(&(c as u32))) {
        st.class("properties-latin1-range");
    }
    if all.chars().any(|c| c as u32 > 0xffff) {
        st.class("properties-astral");
    }
    if m.iter().any(|(k, v)| k.ends_with(' ') || v.ends_with(' ') || k.starts_with(' ') || v.starts_with(' ')) {
        st.class("properties-edge-space");
    }
    let d = |what: &str, extra: Value| json!({"map": m, "step": what, "detail": extra});
    // known finding: the java-properties writer escapes control characters as \u<hex> without padding to four digits
    let ctl = all.chars().any(|c| ((c as u32) < 0x20 && c != '\n' && c != '\t' && c != '\r' && c != '\u{c}') );
    let fail = |sig: &str, detail: Value| if ctl { crate::engine::fail("C17/properties/control-character", detail) } else { crate::engine::fail(sig, detail) };
    let text = match exec(&mut ctx, "map_to_properties", &[h.clone()]) {
        CommandResult::Continue(Some(t)) => t,
        other => return fail("C17/properties/map_to_properties", d("map_to_properties", json!(show(&other)))),
    };
    let h2 = val(&exec(&mut ctx, "map", &[])).flatten().unwrap();
    // sometimes an earlier load of a malformed text into the same map was refused
    if t.chance(1, 4) {
        let bad = *t.pick_ref(&["zz1=1\nzz2=\\u00zz\n", "zz1 = 1\nzz2 = 2\nzz3=\\uq\n", "zz1:x\n\\u12=3\n"]);
        ctx.variables.insert("badtext".into(), bad.to_string());
        let r = exec(&mut ctx, "map_load_properties", &[h2.clone(), "${badtext}".to_string()]);
        if val(&r) == Some(Some("true".into())) {
            return Verdict::Discard("the malformed text was accepted");
        }
        st.class("properties-refused-load-before-the-read-back");
    }
    ctx.variables.insert("text".into(), text.clone());
    let r = exec(&mut ctx, "map_load_properties", &[h2.clone(), "${text}".to_string()]);
    if val(&r) != Some(Some("true".into())) {
        return fail("C17/properties/map_load_properties", d("map_load_properties", json!({"text": text, "got": show(&r)})));
    }
    // compare contents
    let size = exec(&mut ctx, "map_size", &[h2.clone()]);
    if val(&size) != Some(Some(m.len().to_string())) {
        return fail("C17/properties/roundtrip", d("size", json!({"text": text, "size": show(&size)})));
    }
    for (i, (k, v)) in m.iter().enumerate() {
        let g = exec(&mut ctx, "map_get", &[h2.clone(), format!("${{k{}}}", i)]);
        if val(&g) != Some(Some(v.clone())) {
            return fail("C17/properties/roundtrip", d("value", json!({"text": text, "key": k, "expected": v, "got": show(&g)})));
        }
    }
    // the documented --prefix form: every key is read back as <prefix>.<key>, into a map that - one case in two - already
    // holds one of those keys with another value (a load overwrites)
    if t.chance(1, 4) {
        let pfx = *t.pick_ref(&["cfg", "a.b", "p"]);
        let h3 = val(&exec(&mut ctx, "map", &[])).flatten().unwrap();
        let mut extra = 0;
        if !m.is_empty() && t.flip() {
            let _ = exec(&mut ctx, "map_put", &[h3.clone(), format!("{}.${{k0}}", pfx), "stale".to_string()]);
            let _ = exec(&mut ctx, "map_put", &[h3.clone(), "other".to_string(), "kept".to_string()]);
            extra = 1;
            st.class("properties-prefix-load-over-an-existing-key");
        }
        let r = exec(&mut ctx, "map_load_properties", &["--prefix".to_string(), pfx.to_string(), h3.clone(), "${text}".to_string()]);
        if val(&r) != Some(Some("true".into())) {
            return fail("C17/properties/map_load_properties", d("map_load_properties --prefix", json!({"text": text, "got": show(&r)})));
        }
        let size = exec(&mut ctx, "map_size", &[h3.clone()]);
        if val(&size) != Some(Some((m.len() + extra).to_string())) {
            return fail("C17/properties/prefix-roundtrip", d("size", json!({"text": text, "prefix": pfx, "size": show(&size), "expected": m.len() + extra})));
        }
        for (i, (k, v)) in m.iter().enumerate() {
            let g = exec(&mut ctx, "map_get", &[h3.clone(), format!("{}.${{k{}}}", pfx, i)]);
            if val(&g) != Some(Some(v.clone())) {
                return fail("C17/properties/prefix-roundtrip", d("value", json!({"text": text, "prefix": pfx, "key": k, "expected": v, "got": show(&g)})));
            }
        }
        let _ = exec(&mut ctx, "release", &[h3]);
    }
    let _ = exec(&mut ctx, "release", &[h]);
    let _ = exec(&mut ctx, "release", &[h2]);
    if handles(&ctx) != before {
        return fail("C17/properties/handles-leaked", d("release", json!(null)));
    }
    let nt = all.chars().any(|c| !c.is_ascii_alphanumeric());
    Verdict::Pass(if nt && !m.is_empty() { Some(fp(&m)) } else { None })
}

pub fn property() -> Property {
    Property {
        id: "C17",
        rule: "(text) arbitrary Unicode texts incl. empty, NUL, controls, BOM, astral, and - one case in sixty - texts of 4 KiB .. 70 KiB, delivered through a variable: bytes_to_string(string_to_bytes(t)) == t, base64_encode equals an independent reference encoder, bytes_to_string(base64_decode(base64_encode(..))) == t, handles released and the handle table back to its size; (hex) u64 edges and random values: hex_encode equals a reference, hex_decode(hex_encode(n)) == n; (json) documents from a grammar (one in eighty hand-shaped: 65..120 levels deep, or a single array / object of 1000..4000 members) (depth <= 4/6, width <= 5/8, string/integer/edge-integer/dyadic-decimal/bool/null leaves, hazardous keys) in compact or pretty form: json_encode --collection(json_parse --collection d) equals normalise(d) as a JSON value (scalars to strings, nulls dropped), release -r returns the handle table to its size - one case in three parses into an output variable that still holds the collection of an earlier parse kept under another name, which must still encode to its own document afterwards; (properties) maps with keys/values over '=', ':', '#', '!', spaces, LF, CR, tab, form feed, backslash, quotes, Latin-1 range, CJK, astral and random characters: map_load_properties(map_to_properties(m)) into a fresh map (one case in four: a map into which the load of a malformed text was refused just before) has the same keys and values; one case in four also reads the text back with --prefix p into a map that may already hold p.<key> with another value: every key arrives as p.<key> with its value. Non-trivial: text with a multi-byte or control character / JSON of depth >= 2 with a null / map with a non-alphanumeric character; distinct by input",
        assumptions: &[
            "a root-level null document and string leaves spelled like handles are not generated",
            "JSON numbers are generated in serde_json's canonical spelling",
        ],
        sections: vec![
            Section { name: "text", plan: |t| match t { Tier::Quick => Plan::Random { cases: 100_000, max_len: 60 }, Tier::Thorough => Plan::Random { cases: 8_000_000, max_len: 100 } }, case: case_text, min_classes: &[("empty-text", 1000), ("text-with-nul", 1000), ("text-starting-with-bom", 100), ("text-longer-than-4096-bytes", 800)] },
            Section { name: "hex", plan: |t| match t { Tier::Quick => Plan::Random { cases: 40_000, max_len: 6 }, Tier::Thorough => Plan::Random { cases: 2_000_000, max_len: 6 } }, case: case_hex, min_classes: &[] },
            Section { name: "json", plan: |t| match t { Tier::Quick => Plan::Random { cases: 60_000, max_len: 400 }, Tier::Thorough => Plan::Skip }, case: case_json_q, min_classes: &[("json-depth-2", 5000), ("json-with-null", 5000), ("json-hazardous-key", 5000), ("json-string-that-looks-like-a-handle-or-a-scalar", 3000), ("json-output-variable-holds-an-earlier-document", 5000), ("json-nested-deeper-than-64", 200), ("json-with-over-1000-members", 200)] },
            Section { name: "json-deep", plan: |t| match t { Tier::Quick => Plan::Skip, Tier::Thorough => Plan::Random { cases: 4_000_000, max_len: 1500 } }, case: case_json_t, min_classes: &[] },
            Section { name: "properties", plan: |t| match t { Tier::Quick => Plan::Random { cases: 60_000, max_len: 160 }, Tier::Thorough => Plan::Random { cases: 4_000_000, max_len: 200 } }, case: case_properties, min_classes: &[("properties-latin1-range", 2000), ("properties-astral", 2000), ("properties-edge-space", 2000), ("properties-refused-load-before-the-read-back", 5000), ("properties-value-or-key-that-is-a-live-handle", 3000)] },
        ],
        probes: vec![],
    }
}
