//! C08 — parsing is total, one instruction per line, malformed lines rejected in place.

use crate::engine::*;
use crate::gen::*;
use duckscript::parser;
use duckscript::types::error::ScriptError;
use duckscript::types::instruction::InstructionType;
use serde_json::json;

const SOUP: &[&str] = &[
    ":", "=", "\"", "\\", "#", "!", "$", "%", "{", "}", " ", "\t", "a", "b", "cmd", "x", "\\n", "\\\"", "\\\\", "${", "%{", "\\$", "\\${", "\"\"", " = ", " # ", "  ",
    "é", "😀", "\0", "\u{a0}", "\\t", "\\r", "\\q", "\\", ":l", "!x", "\u{2028}",
];

fn soup_line(t: &mut Tape, st: &mut Stats) -> String {
    let mut s = String::new();
    if t.chance(1, 200) {
        // very long line
        st.class("long-line");
        let unit = hazard_string(t, 4);
        let unit = if unit.is_empty() { "ab ".to_string() } else { unit.replace('\n', " ").replace('\r', " ") };
        while s.chars().count() < 20_000 {
            s.push_str(&unit);
            s.push(' ');
        }
        return s;
    }
    let n = t.len(14);
    for _ in 0..n {
        match t.weighted(&[6, 3, 1]) {
            0 => s.push_str(t.pick(SOUP)),
            1 => {
                let h = hazard_string(t, 2);
                s.push_str(&h.replace('\n', "").replace('\r', ""));
            }
            _ => {
                let c = any_char(t);
                if c != '\n' && c != '\r' {
                    s.push(c)
                }
            }
        }
    }
    s
}

/// my own line splitter, independent of `str::lines`
fn split_lines(text: &str) -> Vec<&str> {
    let mut v: Vec<&str> = text.split('\n').collect();
    if v.last() == Some(&"") {
        v.pop();
    }
    v.into_iter().map(|l| l.strip_suffix('\r').unwrap_or(l)).collect()
}

fn ascii_blank_or_comment(l: &str) -> bool {
    let t = l.trim_matches(|c| c == ' ' || c == '\t');
    t.is_empty() || t.starts_with('#')
}

fn case_text(t: &mut Tape, st: &mut Stats) -> Verdict {
    let n = t.len(12);
    let mut text = String::new();
    let mut syntax = false;
    for i in 0..n {
        let l = soup_line(t, st);
        if l.contains(|c| ":=\"\\#!$%{}".contains(c)) {
            syntax = true;
        }
        text.push_str(&l);
        let last = i + 1 == n;
        match t.below(if last { 4 } else { 3 }) {
            0 => text.push('\n'),
            1 => {
                text.push_str("\r\n");
                st.class("crlf");
            }
            2 => {
                text.push('\n');
            }
            _ => {}
        }
    }
    if text.is_empty() {
        st.class("empty-text");
    }
    let lines = split_lines(&text);
    let has_bang = lines.iter().any(|l| l.trim().starts_with('!'));
    if st.want_sample() && syntax && lines.len() >= 2 {
        let tx: String = text.chars().take(300).collect();
        st.sample(|| json!({"text": tx}));
    }
    let r = guarded(|| parser::parse_text(&text));
    match r {
        Err((msg, loc)) => fail(
            &format!("C08/panic@{}", short_loc(&loc)),
            json!({"text": text, "panic": msg, "location": loc}),
        ),
        Ok(Err(_e)) => {
            st.class("rejected");
            Verdict::Pass(if lines.len() >= 2 && syntax { Some(fp(&text)) } else { None })
        }
        Ok(Ok(v)) => {
            st.class("accepted");
            if has_bang {
                st.class("accepted-with-preprocess-line");
                return Verdict::Pass(None);
            }
            if v.len() != lines.len() {
                return fail(
                    "C08/count",
                    json!({"text": text, "lines": lines.len(), "instructions": v.len()}),
                );
            }
            for (i, ins) in v.iter().enumerate() {
                if ins.meta_info.line != Some(i + 1) {
                    return fail("C08/line-number", json!({"text": text, "index": i, "got": format!("{:?}", ins.meta_info.line)}));
                }
                if ascii_blank_or_comment(lines[i]) {
                    if !matches!(ins.instruction_type, InstructionType::Empty) {
                        return fail("C08/blank-not-empty", json!({"text": text, "index": i, "got": format!("{:?}", ins.instruction_type)}));
                    }
                }
            }
            Verdict::Pass(if lines.len() >= 2 && syntax { Some(fp(&text)) } else { None })
        }
    }
}

#[derive(Debug, Clone, Copy, PartialEq)]
enum Kind {
    MissingEndQuotes,
    BadEscape,
    QuoteInName,
    BackslashInName,
    NoPreprocess,
    UnknownPreprocess,
}

fn kind_of(e: &ScriptError) -> (&'static str, Option<usize>, bool) {
    match e {
        ScriptError::MissingEndQuotes(m) => ("MissingEndQuotes", m.line, m.source.is_some()),
        ScriptError::ControlWithoutValidValue(m) => ("ControlWithoutValidValue", m.line, m.source.is_some()),
        ScriptError::InvalidQuotesLocation(m) => ("InvalidQuotesLocation", m.line, m.source.is_some()),
        ScriptError::InvalidControlLocation(m) => ("InvalidControlLocation", m.line, m.source.is_some()),
        ScriptError::PreProcessNoCommandFound(m) => ("PreProcessNoCommandFound", m.line, m.source.is_some()),
        ScriptError::UnknownPreProcessorCommand(m) => ("UnknownPreProcessorCommand", m.line, m.source.is_some()),
        ScriptError::EmptyLabel(m) => ("EmptyLabel", m.line, m.source.is_some()),
        ScriptError::MissingOutputVariableName(m) => ("MissingOutputVariableName", m.line, m.source.is_some()),
        ScriptError::InvalidEqualsLocation(m) => ("InvalidEqualsLocation", m.line, m.source.is_some()),
        ScriptError::ErrorReadingFile(_, _) => ("ErrorReadingFile", None, false),
        ScriptError::Initialization(_) => ("Initialization", None, false),
        ScriptError::Runtime(_, m) => ("Runtime", m.as_ref().and_then(|m| m.line), false),
    }
}

fn safe_word(t: &mut Tape) -> String {
    // a word with no syntax characters at all
    let n = 1 + t.len(4);
    let mut s = String::new();
    for _ in 0..n {
        s.push(t.pick(&['a', 'b', 'k', 'z', 'Q', '0', '7', '_', '-', '.', 'é', '日']));
    }
    s
}

pub fn malformed_line(t: &mut Tape) -> (String, &'static str, &'static str) {
    let kind = *t.pick_ref(&[
        Kind::MissingEndQuotes,
        Kind::BadEscape,
        Kind::QuoteInName,
        Kind::BackslashInName,
        Kind::NoPreprocess,
        Kind::UnknownPreprocess,
    ]);
    // indentation: spaces, or any other white space (the line is trimmed before it is looked at)
    let lead = if t.chance(1, 4) { " ".repeat(1 + t.below(3)) } else if t.chance(1, 6) { t.pick(&["\t", "\u{a0}", "\u{3000}", "\u{b}", " \u{2003} ", "\u{85}"]).to_string() } else { String::new() };
    // a well-formed prefix with a command so that arguments may follow
    let mut prefix = gen_ins(t, 2, 4);
    if prefix.command.is_none() {
        prefix.command = Some(safe_word(t));
    }
    let prefix_s = render_canonical(&prefix);
    match kind {
        Kind::MissingEndQuotes => {
            let mut body = hazard_string(t, 4);
            body.retain(|c| c != '\n' && c != '\r');
            let (r, _) = render_arg(&body, true, false, false);
            // drop the closing quote
            let r = &r[..r.len() - 1];
            (format!("{}{} {}", lead, prefix_s, r), "MissingEndQuotes", "unterminated-quote")
        }
        Kind::BadEscape => {
            let bad = t.pick(&['q', 'a', 'x', '0', ' ', 'N', 'e', '\'', '/', '%', '{', 'é']);
            let w1 = safe_word(t);
            let w2 = safe_word(t);
            match t.below(9) {
                // \$ is only the first half of the documented \${ : without the brace it is not an escape
                4 => (format!("{}{} {}\\${}", lead, prefix_s, w1, w2), "ControlWithoutValidValue", "dollar-escape-without-brace"),
                5 => (format!("{}{} {}\\$ {}", lead, prefix_s, w1, w2), "ControlWithoutValidValue", "dollar-escape-without-brace"),
                6 => (format!("{}{} {}\\$", lead, prefix_s, if t.flip() { w1 } else { String::new() }), "ControlWithoutValidValue", "dollar-escape-at-end-of-line"),
                7 => (format!("{}{} \"{}\\${}\"", lead, prefix_s, w1, w2), "ControlWithoutValidValue", "dollar-escape-without-brace"),
                8 => (format!("{}{} \"{}\\$", lead, prefix_s, w1), "ControlWithoutValidValue", "dollar-escape-at-end-of-line"),
                0 => (format!("{}{} {}\\{}{}", lead, prefix_s, w1, bad, w2), "ControlWithoutValidValue", "bad-escape-unquoted"),
                1 => (format!("{}{} \"{}\\{}{}\"", lead, prefix_s, w1, bad, w2), "ControlWithoutValidValue", "bad-escape-quoted"),
                2 => (format!("{}{} {}\\", lead, prefix_s, w1), "ControlWithoutValidValue", "trailing-backslash"),
                _ => (format!("{}{} \"{}\\", lead, prefix_s, w1), "ControlWithoutValidValue", "trailing-backslash-in-quotes"),
            }
        }
        Kind::QuoteInName | Kind::BackslashInName => {
            let w = safe_word(t);
            let w2 = safe_word(t);
            let bad = if kind == Kind::QuoteInName {
                format!("\"{}\"", w)
            } else {
                match t.below(3) {
                    0 => format!("{}\\{}", w, w2),
                    1 => format!("\\{}", w),
                    _ => format!("{}\\", w),
                }
            };
            let (ek, tag) = if kind == Kind::QuoteInName {
                ("InvalidQuotesLocation", "quote-in-name")
            } else {
                ("InvalidControlLocation", "backslash-in-name")
            };
            let line = match t.below(5) {
                0 => format!("{}:{} {} {}", lead, bad, safe_word(t), safe_word(t)),
                1 => format!("{}{} = {} {}", lead, bad, safe_word(t), safe_word(t)),
                2 => format!("{}{} {}", lead, bad, safe_word(t)),
                3 => format!("{}{} = {} {}", lead, safe_word(t), bad, safe_word(t)),
                _ => format!("{}:{} {} {}", lead, safe_word(t), bad, safe_word(t)),
            };
            (line, ek, tag)
        }
        Kind::NoPreprocess => {
            let trail = " ".repeat(t.below(3));
            (format!("{}!{}", lead, trail), "PreProcessNoCommandFound", "bang-alone")
        }
        Kind::UnknownPreprocess => {
            let mut name = safe_word(t);
            if name == "print" || name == "include_files" {
                name.push('x');
            }
            let sp = if t.flip() { "" } else { " " };
            (format!("{}!{}{} {} {}", lead, sp, name, safe_word(t), safe_word(t)), "UnknownPreProcessorCommand", "unknown-preprocess")
        }
    }
}

/// a small well-formed file for include directives (one per thread, written once)
fn include_fixture() -> String {
    thread_local! {
        static PATH: std::cell::RefCell<Option<String>> = std::cell::RefCell::new(None);
    }
    PATH.with(|p| {
        let mut p = p.borrow_mut();
        if p.is_none() {
            let f = format!("{}/c08-included-{:?}.ds", crate::hz::scratch_root(), std::thread::current().id()).replace(['(', ')'], "");
            std::fs::write(&f, "a = set 1\n\nb = set 2\n# nothing\n").expect("write include fixture");
            *p = Some(f);
        }
        p.clone().unwrap()
    })
}

/// (include-cycle) parsing a file that (transitively) includes itself terminates with an error - in a child process,
/// because the failure mode is a stack overflow
fn case_cycle(t: &mut Tape, st: &mut Stats) -> Verdict {
    crate::props::c07::case_cycle_for("C08", t, st)
}

/// A text whose include directive names a file with a malformed line is refused with that line's error - every time it
/// is parsed on this thread, not only the first time (a refused include leaves nothing behind).
fn broken_include_twice(t: &mut Tape) -> Option<Verdict> {
    let (bad, expect_kind, tag) = malformed_line(t);
    if bad.contains("!include_files") {
        return None;
    }
    let f = format!("{}/c08-broken-{:?}.ds", crate::hz::scratch_root(), std::thread::current().id()).replace(['(', ')'], "");
    let pos = t.below(3);
    let mut body = String::new();
    for i in 0..3 {
        if i == pos {
            body.push_str(&bad);
            body.push('\n');
        }
        body.push_str(&format!("k{} = set {}\n", i, i));
    }
    std::fs::write(&f, &body).expect("write broken include");
    let text = format!("x = set 1\n!include_files {}\ny = set 2\n", f);
    let mut seen: Vec<(String, Option<usize>)> = vec![];
    for _ in 0..2 {
        match guarded(|| parser::parse_text(&text)) {
            Err((msg, loc)) => return Some(fail(&format!("C08/panic@{}", short_loc(&loc)), json!({"text": text, "included": body, "panic": msg, "location": loc}))),
            Ok(Ok(v)) => return Some(fail(&format!("C08/broken-include/{}/accepted", tag), json!({"text": text, "included": body, "got_instructions": v.len()}))),
            Ok(Err(e)) => {
                let (kind, line, _) = kind_of(&e);
                seen.push((kind.to_string(), line));
            }
        }
    }
    let want = (expect_kind.to_string(), Some(pos + 1));
    if seen[0] != want || seen[1] != want {
        return Some(fail(
            &format!("C08/broken-include/{}/wrong-error", tag),
            json!({"text": text, "included": body, "expected": format!("{:?}", want), "first_parse": format!("{:?}", seen[0]), "second_parse": format!("{:?}", seen[1])}),
        ));
    }
    None
}

fn case_planted(t: &mut Tape, st: &mut Stats) -> Verdict {
    if t.chance(1, 10) {
        st.class("text-including-a-malformed-file-parsed-twice");
        if let Some(v) = broken_include_twice(t) {
            return v;
        }
    }
    let n = 1 + t.len(60);
    let k = t.below(n); // 0-based position of the malformed line
    let (bad, expect_kind, tag) = malformed_line(t);
    st.class(tag);
    let crlf = t.chance(1, 4);
    let eol = if crlf { "\r\n" } else { "\n" };
    let mut text = String::new();
    let mut blanked = String::new();
    // sometimes an earlier line pulls in a (well-formed, 4-line) file: the lines after it keep their own numbers
    let include_at = if k > 0 && t.chance(1, 5) { Some(t.below(k)) } else { None };
    if include_at.is_some() {
        st.class("include-directive-before-the-malformed-line");
    }
    for i in 0..n {
        if include_at == Some(i) {
            let l = format!("!include_files {}", include_fixture());
            text.push_str(&l);
            text.push_str(eol);
            blanked.push_str(&l);
            blanked.push_str(eol);
            continue;
        }
        if i == k {
            text.push_str(&bad);
            text.push_str(eol);
            blanked.push_str(eol);
        } else {
            let ins = if t.chance(1, 6) { Ins::default() } else { gen_ins(t, 3, 4) };
            let mut info = RenderInfo::default();
            let l = render_line(&ins, t, &mut info);
            text.push_str(&l);
            text.push_str(eol);
            blanked.push_str(&l);
            blanked.push_str(eol);
        }
    }
    if st.want_sample() && k > 0 {
        let tx = text.clone();
        st.sample(|| json!({"script": tx, "malformed_line": k + 1, "expected_error": expect_kind}));
    }
    let nt = if k > 0 && n > 2 { Some(fp(&text)) } else { None };
    // a refusal does not depend on what a script that ran earlier on this thread spread-bound: one case in six first has
    // variables spread (`%{v}`) that hold the argument text of the malformed line (where a backslash is a plain character)
    if t.chance(1, 6) {
        crate::hz::spread_tails_on_this_thread(&bad);
        st.class("parsed-after-a-spread-of-the-malformed-line's-argument-text");
    }
    match guarded(|| (parser::parse_text(&text), parser::parse_text(&blanked))) {
        Err((msg, loc)) => fail(&format!("C08/panic@{}", short_loc(&loc)), json!({"text": text, "panic": msg, "location": loc})),
        Ok((r, rb)) => {
            if let Err(e) = rb {
                return fail(
                    "C08/planted/blanked-script-rejected",
                    json!({"text": blanked, "error": format!("{:?}", e)}),
                );
            }
            match r {
                Ok(v) => fail(
                    &format!("C08/planted/{}/accepted", tag),
                    json!({"text": text, "malformed_line": k + 1, "bad_line": bad, "expected": expect_kind, "got_instructions": v.len()}),
                ),
                Err(e) => {
                    let (kind, line, has_source) = kind_of(&e);
                    if kind != expect_kind {
                        fail(
                            &format!("C08/planted/{}/wrong-kind", tag),
                            json!({"text": text, "malformed_line": k + 1, "bad_line": bad, "expected": expect_kind, "got": kind}),
                        )
                    } else if line != Some(k + 1) || has_source {
                        fail(
                            &format!("C08/planted/{}/wrong-line", tag),
                            json!({"text": text, "malformed_line": k + 1, "bad_line": bad, "got_line": format!("{:?}", line), "has_source": has_source}),
                        )
                    } else {
                        Verdict::Pass(nt)
                    }
                }
            }
        }
    }
}

pub fn property() -> Property {
    Property {
        id: "C08",
        rule: "(text) arbitrary texts from a syntax-character soup / hazard strings / random Unicode with LF, CRLF line ends and occasional 20k-char lines: parse_text must return, and when it accepts a text without '!' lines the instruction list must have one entry per line (own splitter) with 1-based line numbers and Empty for blank/# lines; (planted) a well-formed generated script (one case in five with an !include_files directive of a well-formed file on an earlier line) with exactly one malformed line of a documented kind at a random position must be rejected with the matching error kind and that line number, and must parse once that line is blanked. (include-cycle) include cycles of length 1..4 named by relative, absolute and non-canonically spelled absolute paths, parsed in a child process: the parse ends with an error, the process is not killed. Non-trivial: text with >=2 lines and a syntax character / planted line not first in a script of >2 lines; distinct by text hash",
        assumptions: &[
            "texts containing lines starting with '!' are excluded from the count/shape check (include/print directives belong to C14)",
            "'blank' is asserted only for lines made of spaces/tabs or starting with '#' after removing spaces/tabs",
        ],
        sections: vec![
            Section {
                name: "text",
                plan: |t| match t {
                    Tier::Quick => Plan::Random { cases: 300_000, max_len: 200 },
                    Tier::Thorough => Plan::Random { cases: 12_000_000, max_len: 400 },
                },
                case: case_text,
                min_classes: &[("accepted", 5000), ("rejected", 5000), ("crlf", 1000), ("long-line", 20)],
            },
            Section {
                name: "planted",
                plan: |t| match t {
                    Tier::Quick => Plan::Random { cases: 100_000, max_len: 1200 },
                    Tier::Thorough => Plan::Random { cases: 3_000_000, max_len: 3000 },
                },
                case: case_planted,
                min_classes: &[("unterminated-quote", 1000), ("bad-escape-quoted", 200), ("trailing-backslash", 200), ("dollar-escape-without-brace", 500), ("dollar-escape-at-end-of-line", 300), ("quote-in-name", 1000), ("backslash-in-name", 1000), ("bang-alone", 1000), ("unknown-preprocess", 1000), ("include-directive-before-the-malformed-line", 5000)],
            },
            Section {
                name: "include-cycle",
                plan: |t| match t {
                    Tier::Quick => Plan::Random { cases: 96, max_len: 4 },
                    Tier::Thorough => Plan::Random { cases: 1_200, max_len: 4 },
                },
                case: case_cycle,
                min_classes: &[("cycle-through-a-non-canonical-absolute-path", 20)],
            },
        ],
        probes: vec![],
    }
}
