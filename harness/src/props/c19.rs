//! C19 — script-implemented library commands leave no trace in the caller's variables.
//! SAFETY: file-touching commands (sha*sum, cp_glob, set_mode_glob) only receive paths below the per-case scratch directory.

use crate::engine::*;
use crate::gen::{render_arg, hazard_string};
use crate::hz::*;
use crate::props::c09::known_class;
use duckscript::types::command::{Command, CommandInvocationContext, CommandResult};
use duckscript::types::runtime::StateValue;
use serde_json::json;
use std::cell::RefCell;
use std::collections::{BTreeSet, HashMap};
use std::sync::OnceLock;

#[derive(Clone, Debug)]
struct Snap {
    tag: String,
    vars: HashMap<String, String>,
    handles: usize,
}

thread_local! {
    static SNAPS: RefCell<Vec<Snap>> = RefCell::new(vec![]);
}

#[derive(Clone)]
struct SnapCmd;
impl Command for SnapCmd {
    fn name(&self) -> String {
        "hz::Snap".into()
    }
    fn aliases(&self) -> Vec<String> {
        vec!["snap".into()]
    }
    fn clone_and_box(&self) -> Box<dyn Command> {
        Box::new(self.clone())
    }
    fn run(&self, c: CommandInvocationContext) -> CommandResult {
        let handles = match c.state.get("handles") {
            Some(StateValue::SubState(m)) => m.len(),
            _ => 0,
        };
        SNAPS.with(|s| s.borrow_mut().push(Snap { tag: c.arguments.join(" "), vars: c.variables.clone(), handles }));
        CommandResult::Continue(None)
    }
}

const COMMANDS: &[&str] = &[
    "unset", "join_path", "array_contains", "array_join", "array_concat", "array_is_empty", "set_from_array", "set_is_empty", "map_contains_key", "map_contains_value", "map_is_empty", "concat", "base64",
    "is_windows", "uname", "print_env", "sha256sum", "sha512sum", "cp_glob", "set_mode_glob",
];

/// every script.ds in the SDK must be known here (wget is excluded: network)
fn cross_check_script_commands() {
    static DONE: OnceLock<()> = OnceLock::new();
    DONE.get_or_init(|| {
        fn scan(dir: &std::path::Path, out: &mut Vec<String>) {
            if let Ok(rd) = std::fs::read_dir(dir) {
                for e in rd.flatten() {
                    let p = e.path();
                    if p.is_dir() {
                        scan(&p, out);
                    } else if p.file_name().map(|n| n == "script.ds").unwrap_or(false) {
                        out.push(p.parent().unwrap().file_name().unwrap().to_string_lossy().to_string());
                    }
                }
            }
        }
        let mut found = vec![];
        scan(std::path::Path::new("/repo/duckscript_sdk/src/sdk/std"), &mut found);
        for f in found {
            let known = COMMANDS.contains(&f.as_str()) || f == "wget";
            if !known {
                panic!("harness: script-implemented command '{}' has no generator entry in C19", f);
            }
        }
    });
}

fn strict_value(t: &mut Tape) -> String {
    // special characters allowed, but outside the C09 known classes and free of binding syntax
    for _ in 0..4 {
        let mut s = hazard_string(t, 3);
        s.retain(|c| c != '$' && c != '%' && c != '\\');
        if known_class(&s, true, true).is_none() {
            return s;
        }
    }
    "plain".to_string()
}

struct World {
    arrays: Vec<String>,
    maps: Vec<String>,
    sets: Vec<String>,
    released: String,
    bytes: String,
    scratch: String,
    caller_vars: Vec<String>,
}

fn handle_arg(t: &mut Tape, w: &World, right: u8, st: &mut Stats) -> String {
    // right: 0 array, 1 map, 2 set
    let pools = [&w.arrays, &w.maps, &w.sets];
    match t.weighted(&[8, 2, 1, 1, 1]) {
        0 => format!("${{{}}}", pools[right as usize][t.below(pools[right as usize].len())]),
        1 => {
            st.class("wrong-handle-kind");
            let other = (right as usize + 1 + t.below(2)) % 3;
            format!("${{{}}}", pools[other][t.below(pools[other].len())])
        }
        2 => {
            st.class("released-handle");
            format!("${{{}}}", w.released)
        }
        3 => "handle:doesnotexist000000000".to_string(),
        _ => t.pick(&["plain", "\"\"", "\"a b\""]).to_string(),
    }
}

/// the name under `scope::` that a script-implemented command uses for its own variables
fn private_scope(invoked_as: &str) -> &str {
    match invoked_as {
        "cp_glob" => "glob_cp",
        "chmod_glob" | "set_mode_glob" => "glob_chmod",
        "printenv" => "print_env",
        other => other,
    }
}

fn q(v: &str) -> String {
    render_arg(v, false, false, false).0
}

/// returns (command line without output variable, unset names if the command is `unset`)
fn invocation(t: &mut Tape, w: &World, st: &mut Stats) -> (String, Vec<String>) {
    let cmd = *t.pick_ref(COMMANDS);
    st.class(&format!("cmd-{}", cmd));
    let arity_play = t.weighted(&[8, 1, 1]); // normal, too few, too many
    let mut args: Vec<String> = vec![];
    let mut unset_names = vec![];
    match cmd {
        "unset" => {
            let n = t.len(3);
            for _ in 0..n {
                let name = if !w.caller_vars.is_empty() && t.chance(2, 3) { w.caller_vars[t.below(w.caller_vars.len())].clone() } else { "never_defined".to_string() };
                if t.chance(1, 5) {
                    // the name of an existing variable padded with white space names nothing: nothing is removed
                    let padded = match t.below(3) {
                        0 => format!(" {}", name),
                        1 => format!("{} ", name),
                        _ => format!("\u{a0}{} ", name),
                    };
                    st.class("unset-of-a-padded-name");
                    args.push(q(&padded));
                    // keeps `unset_names` parallel to `args` (a name no variable has)
                    unset_names.push(padded);
                    continue;
                }
                unset_names.push(name.clone());
                args.push(q(&name));
            }
        }
        "join_path" | "concat" => {
            let n = t.len(4);
            for _ in 0..n {
                args.push(q(&strict_value(t)));
            }
        }
        "array_contains" => {
            args.push(handle_arg(t, w, 0, st));
            args.push(q(&strict_value(t)));
        }
        "array_join" => {
            args.push(handle_arg(t, w, 0, st));
            args.push(q(t.pick(&[",", ", ", "", "--", " ", "é"])));
        }
        "array_concat" => {
            let n = 1 + t.len(2);
            for _ in 0..n {
                args.push(handle_arg(t, w, 0, st));
            }
        }
        "array_is_empty" | "set_from_array" => args.push(handle_arg(t, w, 0, st)),
        "set_is_empty" => args.push(handle_arg(t, w, 2, st)),
        "map_is_empty" => args.push(handle_arg(t, w, 1, st)),
        "map_contains_key" | "map_contains_value" => {
            args.push(handle_arg(t, w, 1, st));
            args.push(q(t.pick(&["k1", "v1", "k 2", "nope", ""])));
        }
        "base64" => match t.below(4) {
            0 => {
                args.push(t.pick(&["-e", "-encode"]).to_string());
                args.push(format!("${{{}}}", w.bytes));
            }
            1 => {
                args.push(t.pick(&["-d", "-decode"]).to_string());
                args.push(t.pick(&["aGVsbG8=", "", "AAEC", "////"]).to_string());
            }
            2 => {
                st.class("base64-decode-invalid-input");
                args.push("-d".to_string());
                args.push(t.pick(&["not*base64", "a", "===="]).to_string());
            }
            _ => args.push(format!("${{{}}}", w.bytes)),
        },
        "is_windows" | "print_env" => {}
        "uname" => {
            if t.flip() {
                args.push("-a".to_string())
            }
        }
        "sha256sum" | "sha512sum" => {
            args.push(q(&format!("{}/{}", w.scratch, t.pick(&["src/a.txt", "src/b b.txt", "src/missing.txt", "src"]))));
        }
        "cp_glob" => {
            args.push(q(&format!("{}/{}", w.scratch, t.pick(&["src/*.txt", "src/**/*", "src/a.txt", "src/none*", "src/missing.txt"]))));
            args.push(q(&format!("{}/{}", w.scratch, t.pick(&["out", "out/deep", "src/a.txt/under-a-file"]))));
        }
        _ => {
            // set_mode_glob
            args.push(t.pick(&["644", "600", "bad", ""]).to_string());
            args.push(q(&format!("{}/{}", w.scratch, t.pick(&["src/*.txt", "src/none*", "src/**/*"]))));
        }
    }
    match arity_play {
        1 if !args.is_empty() => {
            st.class("too-few-arguments");
            args.pop();
            if cmd == "unset" {
                unset_names.pop();
            }
        }
        2 => {
            st.class("too-many-arguments");
            args.push(q(&strict_value(t)));
        }
        _ => {}
    }
    // the name a script uses to invoke it
    let invoke = match cmd {
        "set_mode_glob" => *t.pick_ref(&["glob_chmod", "chmod_glob"]),
        "cp_glob" => *t.pick_ref(&["cp_glob", "glob_cp"]),
        other => other,
    };
    let mut line = invoke.to_string();
    for a in &args {
        line.push(' ');
        line.push_str(a);
    }
    (line, unset_names)
}

fn case(t: &mut Tape, st: &mut Stats) -> Verdict {
    cross_check_script_commands();
    let scratch = format!("{}/c19-{:?}", scratch_root(), std::thread::current().id()).replace(['(', ')'], "");
    let _ = std::fs::remove_dir_all(&scratch);
    std::fs::create_dir_all(format!("{}/src/sub", scratch)).expect("mkdir");
    assert!(scratch.contains("/dsverif-"), "harness: unsafe scratch {}", scratch);
    std::fs::write(format!("{}/src/a.txt", scratch), "hello").unwrap();
    std::fs::write(format!("{}/src/b b.txt", scratch), "").unwrap();
    std::fs::write(format!("{}/src/sub/c.txt", scratch), "é").unwrap();
    // caller variables
    let mut script = String::new();
    let mut ctx = sdk_context();
    ctx.commands.set(Box::new(SnapCmd)).unwrap();
    let nv = t.len(8);
    let mut caller_vars = vec![];
    for i in 0..nv {
        let name = match t.below(6) {
            0 => format!("v{}", i),
            1 => format!("my::var{}", i),
            2 => format!("scope{}", i),
            3 => format!("concat::x{}", i),
            4 => {
                // a caller's own scope whose name merely starts with a command's scope name
                st.class("caller-variable-in-sibling-scope");
                let c = *t.pick_ref(&["concat", "join_path", "unset", "array_join", "array_concat", "glob_cp", "base64", "uname", "map_is_empty"]);
                format!("scope::{}{}::v{}", c, t.pick(&["_all", "2", "x"]), i)
            }
            _ => {
                st.class("caller-variable-in-sibling-scope");
                let c = *t.pick_ref(&["concat", "join_path", "unset", "array_join", "array_concat", "glob_cp"]);
                format!("scope::{}{}", c, i)
            }
        };
        let mut val = hazard_string(t, 3);
        val.retain(|c| c != '\0');
        ctx.variables.insert(name.clone(), val);
        caller_vars.push(name);
    }
    // collections
    script.push_str("ha = array a \"b c\" \"\" a\nhe = array\nhm = map\nhx = map_put ${hm} k1 v1\nhx = map_put ${hm} \"k 2\" \"\"\nhx = unset hx\nhme = map\nhs = set_new x y\nhse = set_new\nhr = array gone\nhrr = release ${hr}\nhrr = unset hrr\nhb = string_to_bytes \"héllo\"\nhn = array ${hm} ${hs} ${ha} plain\n");
    // one case in fifty: the caller already holds more than a thousand live collections
    if t.chance(1, 50) {
        script.push_str("bulk = range 0 1040\nfor bulk_i in ${bulk}\n    bulk_h = array x\nend\n");
        st.class("caller-holds-over-1024-live-collections");
    }
    let w = World {
        // hn holds the handles of the caller's other collections (an array of collections)
        arrays: vec!["ha".into(), "he".into(), "hn".into()],
        maps: vec!["hm".into(), "hme".into()],
        sets: vec!["hs".into(), "hse".into()],
        released: "hr".into(),
        bytes: "hb".into(),
        scratch: scratch.clone(),
        caller_vars: caller_vars.clone(),
    };
    let n = 1 + t.len(9);
    let mut invs: Vec<(String, String, Vec<String>)> = vec![]; // (context, line, unset names)
    let mut fn_id = 0;
    for i in 0..n {
        let (mut line, mut unset_names) = invocation(t, &w, st);
        let mut ctxk = *t.pick_ref(&["top", "top", "function", "for-loop", "if-block", "condition", "while-once", "repeated"]);
        // one invocation in ten: the caller has a variable of its own inside the command's private namespace, named like
        // the wrapper's bookkeeping variable and holding one of the caller's collections. The variable itself is the
        // command's to clear; the caller's collection is not.
        if t.chance(1, 10) {
            let word = line.split(' ').next().unwrap_or("").to_string();
            let sc = private_scope(&word).to_string();
            if t.flip() {
                // called without arguments
                line = word.clone();
                unset_names = vec![];
            }
            ctxk = "top";
            script.push_str(&format!("scope::{}::arguments = set ${{{}}}\n", sc, t.pick(&["ha", "hm", "hs"])));
            st.class("caller-variable-named-like-the-wrappers-bookkeeping");
        }
        let is_unset = !unset_names.is_empty() || line.starts_with("unset");
        st.class(&format!("context-{}", ctxk));
        let pre = format!("snap pre {}", i);
        let post = format!("snap post {}", i);
        match ctxk {
            "function" => {
                fn_id += 1;
                script.push_str(&format!("fn wrapper{}\n    {}\n    o = {}\n    {}\nend\nwrapper{}\n", fn_id, pre, line, post, fn_id));
            }
            "for-loop" => {
                script.push_str(&format!("for loopvar in ${{ha}}\n    {}\n    o = {}\n    {}\nend\n", pre, line, post));
            }
            "if-block" => {
                script.push_str(&format!("if true\n    {}\n    o = {}\n    {}\nend\n", pre, line, post));
            }
            "while-once" => {
                script.push_str(&format!("while tick w{} 1\n    {}\n    o = {}\n    {}\nend\n", i, pre, line, post));
            }
            "condition" if !is_unset => {
                // the command itself in condition position (nested evaluation)
                script.push_str(&format!("{}\nif {}\nend\n{}\n", pre, line, post));
            }
            "repeated" => {
                script.push_str(&format!("{}\no = {}\n{}\n{} again\no = {}\n{} again\n", pre, line, post, pre, line, post));
            }
            _ => {
                script.push_str(&format!("{}\no = {}\n{}\n", pre, line, post));
            }
        }
        invs.push((ctxk.to_string(), line, unset_names));
    }
    SNAPS.with(|s| s.borrow_mut().clear());
    hz_reset();
    let out = run_text(&script, ctx, 200_000, None);
    let _ = std::fs::remove_dir_all(&scratch);
    let snaps = SNAPS.with(|s| s.borrow().clone());
    let shown = script.replace(&scratch, "<scratch>");
    let desc = |what: &str, extra: serde_json::Value| json!({"script": shown, "mismatch": what, "detail": extra});
    if out.fuel_exhausted || out.depth_exceeded {
        return fail("C19/does-not-finish", desc("fuel/nesting exhausted", json!(null)));
    }
    if let Err(e) = &out.result {
        let s = format!("{:?}", e);
        if s.contains("Memory leak detected") {
            let line = s.clone();
            let cmd = invs.iter().map(|(_, l, _)| l.split(' ').next().unwrap().to_string()).collect::<Vec<_>>().join(",");
            let _ = cmd;
            return fail("C19/memory-leak-crash", desc("the wrapper detected leaked variables", json!(line)));
        }
        return fail("C19/run-error", desc("run failed", json!(s)));
    }
    // pair up snapshots
    let mut i = 0;
    let mut nontrivial = false;
    while i + 1 < snaps.len() {
        let (a, b) = (&snaps[i], &snaps[i + 1]);
        if !(a.tag.starts_with("pre") && b.tag.starts_with("post") && a.tag[3..] == b.tag[4..]) {
            // loop bodies may interleave: resynchronise on the next pre
            i += 1;
            continue;
        }
        let idx: usize = a.tag.split(' ').nth(1).and_then(|x| x.parse().ok()).unwrap_or(0);
        let (ctxk, line, unset_names) = &invs[idx];
        let cmd = match line.split(' ').next().unwrap() {
            "glob_chmod" | "chmod_glob" => "set_mode_glob",
            "glob_cp" => "cp_glob",
            other => other,
        };
        let mut expected = a.vars.clone();
        for nme in unset_names {
            expected.remove(nme);
        }
        let mut got = b.vars.clone();
        // the private namespaces of the script-implemented commands are theirs to clear (a command may call others)
        let private: Vec<String> = COMMANDS.iter().map(|c| format!("scope::{}::", private_scope(c))).collect();
        expected.retain(|k, _| !private.iter().any(|p| k.starts_with(p)));
        got.retain(|k, _| !private.iter().any(|p| k.starts_with(p)));
        let o = got.remove("o");
        expected.remove("o");
        // variables the wrapping constructs themselves maintain
        for k in ["loopvar"] {
            if let Some(v) = got.get(k) {
                expected.insert(k.to_string(), v.clone());
            }
        }
        // (looked for in the unfiltered snapshot: a name inside a private namespace that was not there before is a leftover)
        let leaked_scope: Vec<&String> = b.vars.keys().filter(|k| k.starts_with("scope::") && !a.vars.contains_key(*k)).collect();
        if !leaked_scope.is_empty() {
            return fail(&format!("C19/{}/internal-variable-left-behind", cmd), desc("a scope:: variable survived the invocation", json!({"invocation": line, "context": ctxk, "left": leaked_scope})));
        }
        if got != expected {
            let diff: BTreeSet<&String> = got.keys().chain(expected.keys()).filter(|k| got.get(*k) != expected.get(*k)).collect();
            return fail(&format!("C19/{}/caller-variables-changed", cmd), desc("caller variables changed", json!({"invocation": line, "context": ctxk, "differing": diff, "before": a.vars, "after": b.vars})));
        }
        let returns_collection = matches!(cmd, "array_concat" | "set_from_array" | "base64") && o.as_deref().map(|v| v.starts_with("handle:")).unwrap_or(false) && ctxk != "condition";
        let want_delta: i64 = if returns_collection { 1 } else { 0 };
        let delta = b.handles as i64 - a.handles as i64;
        // a result handle created in condition position has no variable to live in: only "no more than one" is required there
        let ok = if ctxk == "condition" && matches!(cmd, "array_concat" | "set_from_array" | "base64") { delta == 0 || delta == 1 } else { delta == want_delta };
        if !ok {
            return fail(&format!("C19/{}/handle-table", cmd), desc("handle table size changed by an undocumented amount", json!({"invocation": line, "context": ctxk, "delta": delta, "expected": want_delta, "output": o})));
        }
        if o.as_deref() == Some("false") || ctxk != "top" {
            nontrivial = true;
        }
        i += 2;
    }
    if st.want_sample() && nontrivial {
        let s = shown.clone();
        st.sample(|| json!({"script": s}));
    }
    Verdict::Pass(if nontrivial { Some(fp(&shown)) } else { None })
}

/// Known finding: script-implemented commands test their arguments with `if <command> ${arg}` lines, so an argument of
/// one of the value classes that C09 lists as altered by that wrapper (here: a first argument starting with '=')
/// is re-read as script text inside the command. The case generator stays outside those classes by construction.
fn probe_c09_class() -> Option<String> {
    hz_reset();
    let out = run_text("r = base64 =set hello\n", sdk_context(), 20_000, None);
    match out.result {
        Err(e) => Some(format!("'r = base64 =set hello' ends the run with {:?}", e)),
        Ok(c) => {
            let extra: Vec<&String> = c.variables.keys().filter(|k| *k != "r").collect();
            if extra.is_empty() {
                None
            } else {
                Some(format!("'r = base64 =set hello' left the caller variables {:?}", extra))
            }
        }
    }
}

pub fn property() -> Property {
    Property {
        id: "C19",
        rule: "every command backed by a script.ds (list cross-checked against /repo at start-up; wget excluded) invoked 1..10 times per case with valid, too few, too many, wrong-kind, released and unknown handles and special-character values, at top level, inside functions, for loops, while loops, if blocks, in condition position and twice in a row; the caller owns 0..8 variables with odd names (my::var, scope0, concat::x ...), in one case in fifty more than a thousand live collections, and before one invocation in ten a variable named like the wrapper's bookkeeping variable (scope::<command>::arguments) that holds one of the caller's collections (the invocation then often has no arguments). A harness command snapshots the variables and the handle-table size right before and after every invocation. Invariant: variables after == variables before except the output variable and the documented effect of unset; no scope:: variable remains; the handle table grows by exactly 1 iff the command returned a new collection handle, else 0; the run never ends with the wrapper's 'Memory leak detected' crash. Non-trivial: an invocation that reports false/error or runs inside another construct; distinct by script",
        assumptions: &[
            "argument values come from outside the C09 known classes (the scripts evaluate some arguments through if/not wrappers)",
            "variables inside the private namespace scope::<command>:: of a script-implemented command are that command's to clear: they are left out of the comparison of caller variables (collections they name are not)",
            "file-touching script commands only receive paths inside the case's scratch directory",
        ],
        sections: vec![Section {
            name: "invocations",
            plan: |t| match t {
                Tier::Quick => Plan::Random { cases: 80_000, max_len: 300 },
                Tier::Thorough => Plan::Random { cases: 2_000_000, max_len: 400 },
            },
            case,
            min_classes: &[("wrong-handle-kind", 1000), ("released-handle", 500), ("too-few-arguments", 1000), ("context-function", 2000), ("context-condition", 2000), ("cmd-cp_glob", 1000), ("cmd-array_concat", 1000), ("caller-variable-in-sibling-scope", 3000), ("caller-holds-over-1024-live-collections", 500), ("caller-variable-named-like-the-wrappers-bookkeeping", 5000)],
        }],
        probes: vec![Probe { signature: "C19/argument-of-a-C09-value-class", run: probe_c09_class }],
    }
}
