//! C03 — the runner executes exactly what the command results dictate.

use crate::engine::*;
use crate::gen::*;
use crate::hz::*;
use duckscript::types::command::{Command, CommandInvocationContext, CommandResult, GoToValue};
use duckscript::types::error::ScriptError;
use serde_json::json;
use std::cell::RefCell;
use std::collections::HashMap;

// ---------------------------------------------------------------------------------------------
// the scripted command
// ---------------------------------------------------------------------------------------------

#[derive(Clone, Debug, PartialEq)]
pub enum Res {
    Cont(Option<String>),
    GotoLabel(String, Option<String>),
    GotoLine(usize, Option<String>),
    Exit(Option<String>),
    Error(String),
    Crash(String),
    /// registers (true) or removes (false) the on_error command while the script runs, then continues
    Handler(bool, Option<String>),
}

/// Decodes what a `res` invocation must answer from its received arguments; `jumped` = times this
/// line already jumped. Shared by the harness command and by the model.
pub fn decode(args: &[String], jumped: u32) -> (Res, bool) {
    let get = |i: usize| args.get(i).cloned().unwrap_or_default();
    let val = |flag: usize| if get(flag) == "1" { Some(get(flag + 1)) } else { None };
    match get(0).as_str() {
        "cont" => (Res::Cont(val(1)), false),
        "gl" => {
            let count: u32 = get(2).parse().unwrap_or(0);
            if jumped < count {
                (Res::GotoLabel(get(1), val(3)), true)
            } else {
                (Res::Cont(val(3)), false)
            }
        }
        "gn" => {
            let count: u32 = get(2).parse().unwrap_or(0);
            if jumped < count {
                (Res::GotoLine(get(1).parse().unwrap_or(0), val(3)), true)
            } else {
                (Res::Cont(val(3)), false)
            }
        }
        "exit" => (Res::Exit(val(1)), false),
        "err" => (Res::Error(get(1)), false),
        "crash" => (Res::Crash(get(1)), false),
        "reg" => (Res::Handler(true, val(1)), false),
        "unreg" => (Res::Handler(false, val(1)), false),
        _ => (Res::Crash("bad res".into()), false),
    }
}

#[derive(Default)]
struct C3 {
    jumps: HashMap<usize, u32>,
    on_error_calls: Vec<Vec<String>>,
    /// answers of on_error: 0 continue, 1 exit, 2 crash, 3 error, 4 goto, 5 continue after writing the variable x
    on_error_answers: Vec<u8>,
}

thread_local! {
    static C3S: RefCell<C3> = RefCell::new(C3::default());
}

#[derive(Clone)]
struct ResCmd;
impl Command for ResCmd {
    fn name(&self) -> String {
        "hz::Res".into()
    }
    fn aliases(&self) -> Vec<String> {
        vec!["res".into(), "r2".into()]
    }
    fn clone_and_box(&self) -> Box<dyn Command> {
        Box::new(self.clone())
    }
    fn run(&self, c: CommandInvocationContext) -> CommandResult {
        with_hz(|h| {
            h.trace.push(Event {
                cmd: "res".into(),
                args: c.arguments.clone(),
                line: c.line,
                out: c.output_variable.clone(),
            });
            note_invocation(h, c.variables, &mut c.env.halt);
        });
        let r = C3S.with(|s| {
            let mut s = s.borrow_mut();
            let j = s.jumps.get(&c.line).copied().unwrap_or(0);
            let (r, jumped) = decode(&c.arguments, j);
            if jumped {
                s.jumps.insert(c.line, j + 1);
            }
            r
        });
        match &r {
            Res::Cont(v) | Res::GotoLabel(_, v) | Res::GotoLine(_, v) => with_hz(|h| {
                let n = h.invocations;
                h.res_out.insert(n, v.clone());
            }),
            _ => {}
        }
        match r {
            Res::Cont(v) => CommandResult::Continue(v),
            Res::GotoLabel(l, v) => CommandResult::GoTo(v, GoToValue::Label(l)),
            Res::GotoLine(n, v) => CommandResult::GoTo(v, GoToValue::Line(n)),
            Res::Exit(v) => CommandResult::Exit(v),
            Res::Error(m) => CommandResult::Error(m),
            Res::Crash(m) => CommandResult::Crash(m),
            Res::Handler(on, v) => {
                if on {
                    let _ = c.commands.set(Box::new(OnErrorCmd));
                } else {
                    c.commands.remove("on_error");
                }
                CommandResult::Continue(v)
            }
        }
    }
}

/// what the handler can observe of the variables when it is called (sorted, so comparable)
fn seen_variables(vars: &HashMap<String, String>) -> String {
    let mut v: Vec<String> = vars.iter().map(|(k, v)| format!("{}={:?}", k, v)).collect();
    v.sort();
    v.join(";")
}

fn on_error_answer(i: usize, answers: &[u8]) -> u8 {
    if answers.is_empty() {
        0
    } else {
        answers[i % answers.len()]
    }
}

#[derive(Clone)]
struct OnErrorCmd;
impl Command for OnErrorCmd {
    fn name(&self) -> String {
        "hz::OnError".into()
    }
    fn aliases(&self) -> Vec<String> {
        vec!["on_error".into()]
    }
    fn clone_and_box(&self) -> Box<dyn Command> {
        Box::new(self.clone())
    }
    fn run(&self, c: CommandInvocationContext) -> CommandResult {
        with_hz(|h| {
            h.trace.push(Event { cmd: "on_error".into(), args: c.arguments.clone(), line: c.line, out: None });
            note_invocation(h, c.variables, &mut c.env.halt);
        });
        let seen = seen_variables(c.variables);
        let a = C3S.with(|s| {
            let mut s = s.borrow_mut();
            let i = s.on_error_calls.len();
            let mut rec = c.arguments.clone();
            rec.push(seen);
            s.on_error_calls.push(rec);
            on_error_answer(i, &s.on_error_answers)
        });
        if a == 5 {
            c.variables.insert("x".to_string(), "written by on_error".to_string());
        }
        match a {
            1 => CommandResult::Exit(Some("7".into())),
            2 => CommandResult::Crash("on_error crashed".into()),
            3 => CommandResult::Error("on_error failed".into()),
            4 => CommandResult::GoTo(None, GoToValue::Line(0)),
            _ => CommandResult::Continue(Some("ignored".into())),
        }
    }
}

// ---------------------------------------------------------------------------------------------
// programs
// ---------------------------------------------------------------------------------------------

#[derive(Clone, Debug)]
struct Line {
    ins: Ins,
    /// false: unknown command
    known: bool,
}

const LABELS: &[&str] = &["l1", "l2", "l3", "top", "end", "k=1", "k=2"];
const OUTS: &[&str] = &["x", "y", "z", "r"];
const VALS: &[&str] = &["v1", "", "0", "false", "a b", "${x}", "${y}", "pre${z}post", "7", "true", "é#\"q\""];

fn gen_val(t: &mut Tape) -> (String, String) {
    if t.flip() {
        ("1".into(), t.pick(VALS).to_string())
    } else {
        ("0".into(), "-".into())
    }
}

fn gen_program(t: &mut Tape, st: &mut Stats, max_lines: usize) -> Vec<Line> {
    let n = 1 + t.len(max_lines - 1);
    let mut lines = vec![];
    for _ in 0..n {
        let mut ins = Ins::default();
        let kind = t.weighted(&[8, 1, 1, 1]);
        if t.chance(1, 4) {
            ins.label = Some(t.pick(LABELS).to_string());
        }
        match kind {
            1 => {
                // empty / label-only line
                lines.push(Line { ins, known: true });
                continue;
            }
            2 => {
                ins.command = Some(t.pick(&["nosuch", "missing_cmd"]).to_string());
                if t.flip() {
                    ins.output = Some(t.pick(OUTS).to_string());
                }
                st.class("unknown-command-line");
                lines.push(Line { ins, known: false });
                continue;
            }
            _ => {}
        }
        if t.chance(2, 5) {
            ins.output = Some(t.pick(OUTS).to_string());
        }
        ins.command = Some(t.pick(&["res", "res", "r2", "hz::Res"]).to_string());
        let rk = t.weighted(&[6, 3, 3, 1, 3, 1, 1]);
        match rk {
            0 => {
                let (f, v) = gen_val(t);
                ins.args = vec!["cont".into(), f, v];
            }
            1 => {
                let (f, v) = gen_val(t);
                let label = if t.chance(1, 8) { ":nolabel".to_string() } else { format!(":{}", t.pick(LABELS)) };
                // one jump in twenty is taken hundreds of times before it falls through
                let count = if t.chance(1, 20) { 300 + t.below(1300) } else { t.below(3) };
                ins.args = vec!["gl".into(), label, count.to_string(), f, v];
            }
            2 => {
                let (f, v) = gen_val(t);
                let target = match t.below(6) {
                    0 => n,
                    1 => n + 1 + t.below(1000),
                    _ => t.below(n),
                };
                let count = if t.chance(1, 20) { 300 + t.below(1300) } else { t.below(3) };
                ins.args = vec!["gn".into(), target.to_string(), count.to_string(), f, v];
            }
            3 => {
                let (f, v) = if t.flip() {
                    ("1".to_string(), t.pick(&["0", "1", "3", "255", "text", "", "-1", "${x}", "00", "000", "-0", "007"]).to_string())
                } else {
                    ("0".to_string(), "-".to_string())
                };
                ins.args = vec!["exit".into(), f, v];
            }
            4 => {
                ins.args = vec!["err".into(), t.pick(&["boom", "bad thing", "", "é", "${x}", "${z}", "pre ${y}"]).to_string()];
            }
            6 => {
                let (f, v) = gen_val(t);
                ins.args = vec![t.pick(&["reg", "unreg"]).to_string(), f, v];
            }
            _ => {
                ins.args = vec!["crash".into(), t.pick(&["dead", "fatal error"]).to_string()];
            }
        }
        // extra arguments that observe variables
        let extra = t.len(2);
        for _ in 0..extra {
            ins.args.push(t.pick(&["${x}", "${y}", "${z}", "${r}", "k", "${x}${y}"]).to_string());
        }
        lines.push(Line { ins, known: true });
    }
    lines
}

/// A rendered program over the scripted command (for C13): returns the text and whether it defines on_error use.
pub fn program_text(t: &mut Tape, st: &mut Stats, max_lines: usize) -> String {
    let lines = gen_program(t, st, max_lines);
    let mut text = String::new();
    for l in &lines {
        text.push_str(&render_canonical(&l.ins));
        text.push('\n');
    }
    text
}

// ---------------------------------------------------------------------------------------------
// the abstract machine (transcribed from the property statement)
// ---------------------------------------------------------------------------------------------

#[derive(Debug, PartialEq, Clone)]
enum Outcome {
    Ok,
    /// failed at this source line (1-based)
    Fail(usize),
}

struct ModelRun {
    calls: Vec<Event>,
    on_error_calls: Vec<Vec<String>>,
    vars: HashMap<String, String>,
    outcome: Outcome,
    kinds: std::collections::BTreeSet<&'static str>,
    steps: usize,
    classes: Vec<&'static str>,
}

fn expand_simple(arg: &str, vars: &HashMap<String, String>) -> String {
    // arguments here only use ${name} with simple names; literal text has no $, % or backslash
    let mut out = String::new();
    let mut rest = arg;
    while let Some(i) = rest.find("${") {
        out.push_str(&rest[..i]);
        let after = &rest[i + 2..];
        match after.find('}') {
            Some(j) => {
                if let Some(v) = vars.get(&after[..j]) {
                    out.push_str(v);
                }
                rest = &after[j + 1..];
            }
            None => {
                out.push_str(&rest[i..]);
                rest = "";
            }
        }
    }
    out.push_str(rest);
    out
}

fn set_out(vars: &mut HashMap<String, String>, out: &Option<String>, v: Option<String>) {
    if let Some(o) = out {
        match v {
            Some(v) => {
                vars.insert(o.clone(), v);
            }
            None => {
                vars.remove(o);
            }
        }
    }
}

fn model(lines: &[Line], included: usize, init: &HashMap<String, String>, handler_present: bool, answers: &[u8], source: &str, max_steps: usize) -> Option<ModelRun> {
    let mut handler_present = handler_present;
    // `included` > 0: instruction 0 is the directive (text line 1), the next `included` instructions come from the
    // included file (empty, they never fail), so the instruction at index pc > included was written on text line
    // pc - included + 1
    let src_line = |pc: usize| if included == 0 { pc + 1 } else { pc - included + 1 };
    let mut labels: HashMap<String, usize> = HashMap::new();
    for (i, l) in lines.iter().enumerate() {
        if let Some(lb) = &l.ins.label {
            labels.insert(format!(":{}", lb), i); // later duplicate wins
        }
    }
    let mut m = ModelRun {
        calls: vec![],
        on_error_calls: vec![],
        vars: init.clone(),
        outcome: Outcome::Ok,
        kinds: Default::default(),
        steps: 0,
        classes: vec![],
    };
    let mut jumps: HashMap<usize, u32> = HashMap::new();
    let mut pc = 0usize;
    let mut last_was_jump = false;
    loop {
        if pc >= lines.len() {
            return Some(m);
        }
        m.steps += 1;
        if m.steps > max_steps {
            return None;
        }
        let l = &lines[pc];
        let cmd = match &l.ins.command {
            None => {
                pc += 1;
                continue;
            }
            Some(c) => c,
        };
        if !l.known {
            m.kinds.insert("unknown-command");
            m.outcome = Outcome::Fail(src_line(pc));
            return Some(m);
        }
        let _ = cmd;
        let args: Vec<String> = l.ins.args.iter().map(|a| expand_simple(a, &m.vars)).collect();
        m.calls.push(Event {
            cmd: "res".into(),
            args: args.clone(),
            line: pc,
            out: l.ins.output.clone(),
        });
        let j = jumps.get(&pc).copied().unwrap_or(0);
        let (r, jumped) = decode(&args, j);
        if jumped {
            jumps.insert(pc, j + 1);
        }
        let was_jump = last_was_jump;
        last_was_jump = false;
        match r {
            Res::Cont(v) => {
                m.kinds.insert("continue");
                if v.is_none() && l.ins.output.as_ref().map(|o| m.vars.contains_key(o)).unwrap_or(false) {
                    m.classes.push("continue-none-deletes-set-variable");
                }
                set_out(&mut m.vars, &l.ins.output, v);
                pc += 1;
            }
            Res::GotoLabel(label, v) => {
                m.kinds.insert("goto-label");
                set_out(&mut m.vars, &l.ins.output, v);
                match labels.get(&label) {
                    Some(t) => {
                        let dup = lines.iter().filter(|x| x.ins.label.as_ref().map(|lb| format!(":{}", lb)) == Some(label.clone())).count() > 1;
                        if dup {
                            m.classes.push("duplicate-label-target");
                        }
                        pc = *t;
                        last_was_jump = true;
                    }
                    None => {
                        m.kinds.insert("unknown-label");
                        m.outcome = Outcome::Fail(src_line(pc));
                        return Some(m);
                    }
                }
            }
            Res::GotoLine(n, v) => {
                m.kinds.insert("goto-line");
                set_out(&mut m.vars, &l.ins.output, v);
                if n < pc {
                    m.classes.push("backward-line-jump");
                }
                if n >= lines.len() {
                    m.classes.push("out-of-range-jump");
                }
                pc = n;
                last_was_jump = true;
            }
            Res::Exit(v) => {
                m.kinds.insert("exit");
                set_out(&mut m.vars, &l.ins.output, v.clone());
                if let Some(v) = v {
                    if let Ok(code) = v.parse::<i32>() {
                        if code != 0 {
                            m.outcome = Outcome::Fail(src_line(pc));
                        }
                    }
                }
                return Some(m);
            }
            Res::Error(msg) => {
                m.kinds.insert("error");
                if was_jump {
                    m.classes.push("error-right-after-jump");
                }
                set_out(&mut m.vars, &l.ins.output, Some("false".into()));
                if handler_present {
                    let i = m.on_error_calls.len();
                    // the handler is called after 'false' was stored: that is what it sees, and what it writes stays
                    m.on_error_calls.push(vec![msg, src_line(pc).to_string(), source.to_string(), seen_variables(&m.vars)]);
                    let a = on_error_answer(i, answers);
                    if a == 5 {
                        m.vars.insert("x".to_string(), "written by on_error".to_string());
                        if l.ins.output.as_deref() == Some("x") {
                            m.classes.push("on_error-writes-the-failing-output-variable");
                        }
                    }
                    match a {
                        1 => {
                            m.classes.push("on_error-exit");
                            m.outcome = Outcome::Fail(src_line(pc));
                            return Some(m);
                        }
                        2 => {
                            m.classes.push("on_error-crash");
                            m.outcome = Outcome::Fail(src_line(pc));
                            return Some(m);
                        }
                        _ => {}
                    }
                }
                pc += 1;
            }
            Res::Crash(_) => {
                m.kinds.insert("crash");
                m.outcome = Outcome::Fail(src_line(pc));
                return Some(m);
            }
            Res::Handler(on, v) => {
                m.kinds.insert("continue");
                if on != handler_present {
                    m.classes.push(if on { "handler-registered-during-the-run" } else { "handler-removed-during-the-run" });
                }
                handler_present = on;
                set_out(&mut m.vars, &l.ins.output, v);
                pc += 1;
            }
        }
    }
}

// ---------------------------------------------------------------------------------------------
// the case
// ---------------------------------------------------------------------------------------------

pub fn register(ctx: &mut duckscript::types::runtime::Context, with_on_error: bool) {
    ctx.commands.set(Box::new(ResCmd)).unwrap();
    if with_on_error {
        ctx.commands.set(Box::new(OnErrorCmd)).unwrap();
    }
}

pub fn reset_state(answers: Vec<u8>) {
    C3S.with(|s| {
        *s.borrow_mut() = C3 {
            on_error_answers: answers,
            ..Default::default()
        }
    });
}

/// a file of `k` empty / comment lines (per thread and k, written once)
fn include_fixture(k: usize) -> String {
    let f = format!("{}/c03-included-{}-{:?}.ds", scratch_root(), k, std::thread::current().id()).replace(['(', ')'], "");
    if !std::path::Path::new(&f).exists() {
        let body: String = (0..k).map(|i| if i % 2 == 0 { "\n" } else { "# nothing here\n" }).collect();
        std::fs::write(&f, body).expect("write include fixture");
    }
    f
}

fn case_with(t: &mut Tape, st: &mut Stats, max_lines: usize) -> Verdict {
    let lines = gen_program(t, st, max_lines);
    // configuration
    // the handler's answers, and whether it is registered when the run starts (it can be registered or removed later)
    let handler_at_start = t.chance(3, 4);
    let on_error: Vec<u8> = match t.below(3) {
        0 => vec![0],
        1 => vec![t.below(6) as u8],
        _ => {
            let n = 1 + t.below(3);
            (0..n).map(|_| t.below(6) as u8).collect()
        }
    };
    let file_mode = t.chance(1, 4);
    // sometimes the script starts by including a file of empty / comment lines: its (empty) instructions sit in
    // front of the script's own, which keep their own source line numbers
    let included: usize = if t.chance(1, 5) { 1 + t.below(4) } else { 0 };
    let mut lines = lines;
    if included > 0 {
        st.class("script-starts-with-an-include");
        for l in lines.iter_mut() {
            if l.known && l.ins.args.first().map(|a| a == "gn").unwrap_or(false) {
                if let Ok(n) = l.ins.args[1].parse::<usize>() {
                    l.ins.args[1] = (n + included + 1).to_string();
                }
            }
        }
        // the directive itself is an instruction too
        for _ in 0..included + 1 {
            lines.insert(0, Line { ins: Ins::default(), known: true });
        }
    }
    let mut init = HashMap::new();
    for o in OUTS {
        if t.chance(1, 3) {
            init.insert(o.to_string(), t.pick(&["i0", "init value", "", "cost \\${y}", "100\\% done", "a\\$b"]).to_string());
        }
    }
    // render
    let mut text = String::new();
    let fancy = t.chance(1, 3);
    if included > 0 {
        text.push_str(&format!("!include_files {}\n", include_fixture(included)));
    }
    for l in lines.iter().skip(if included > 0 { included + 1 } else { 0 }) {
        if fancy {
            let mut info = RenderInfo::default();
            text.push_str(&render_line(&l.ins, t, &mut info));
        } else {
            text.push_str(&render_canonical(&l.ins));
        }
        text.push('\n');
    }
    let path = if file_mode {
        let p = format!("{}/c03-{:?}.ds", scratch_root(), std::thread::current().id());
        std::fs::write(&p, &text).expect("write script");
        st.class("file-mode");
        Some(p)
    } else {
        None
    };
    let source = path.clone().unwrap_or_default();
    let long_running = lines.iter().any(|l| l.ins.args.get(2).and_then(|c| c.parse::<u32>().ok()).map(|c| c >= 300).unwrap_or(false) && matches!(l.ins.args.first().map(|a| a.as_str()), Some("gl") | Some("gn")));
    let m = match model(&lines, included, &init, handler_at_start, &on_error, &source, if long_running { 60_000 } else { 5000 }) {
        Some(m) => m,
        None => return Verdict::Discard("model step bound exceeded"),
    };
    for c in &m.classes {
        st.class(c);
    }
    if m.steps >= 1000 {
        st.class("run-of-1000-or-more-instruction-executions");
    }
    // run
    hz_reset();
    reset_state(on_error.clone());
    let mut ctx = bare_context();
    register(&mut ctx, handler_at_start);
    ctx.variables = init.clone();
    let out = match &path {
        Some(p) => run_file(p, ctx, 200_000, None),
        None => run_text(&text, ctx, 200_000, None),
    };
    if let Some(p) = &path {
        let _ = std::fs::remove_file(p);
    }
    let trace: Vec<Event> = with_hz(|h| h.trace.iter().filter(|e| e.cmd == "res").cloned().collect());
    let oe_calls = C3S.with(|s| s.borrow().on_error_calls.clone());
    let detail = |what: &str, extra: serde_json::Value| {
        json!({
            "script": text, "file_mode": file_mode, "on_error_registered_at_start": handler_at_start, "on_error_answers": on_error, "initial_variables": init,
            "mismatch": what, "detail": extra,
            "model_calls": m.calls.iter().map(|e| json!([e.line, e.args, e.out])).collect::<Vec<_>>(),
            "actual_calls": trace.iter().map(|e| json!([e.line, e.args, e.out])).collect::<Vec<_>>(),
        })
    };
    if out.fuel_exhausted {
        return fail("C03/does-not-terminate", detail("implementation ran out of fuel while the model terminated", json!(m.steps)));
    }
    if trace != m.calls {
        let i = trace.iter().zip(m.calls.iter()).position(|(a, b)| a != b).unwrap_or(trace.len().min(m.calls.len()));
        let what = if i < trace.len() && i < m.calls.len() {
            if trace[i].line != m.calls[i].line {
                "wrong-instruction"
            } else if trace[i].args != m.calls[i].args {
                "wrong-arguments"
            } else {
                "wrong-output-variable"
            }
        } else if trace.len() > m.calls.len() {
            "extra-invocations"
        } else {
            "missing-invocations"
        };
        return fail(&format!("C03/trace/{}", what), detail("call trace differs", json!({"first_difference_at": i})));
    }
    if oe_calls != m.on_error_calls {
        return fail("C03/on_error-calls", detail("on_error call log differs", json!({"model": m.on_error_calls, "actual": oe_calls})));
    }
    match (&out.result, &m.outcome) {
        (Ok(ctx), Outcome::Ok) => {
            if ctx.variables != m.vars {
                return fail("C03/final-variables", detail("final variables differ", json!({"model": m.vars, "actual": ctx.variables})));
            }
        }
        (Err(ScriptError::Runtime(_msg, Some(meta))), Outcome::Fail(line)) => {
            if meta.line != Some(*line) {
                return fail("C03/error-line", detail("error line differs", json!({"model": line, "actual": format!("{:?}", meta.line)})));
            }
            let want_source = path.clone();
            if meta.source != want_source {
                return fail("C03/error-source", detail("error source differs", json!({"model": want_source, "actual": meta.source})));
            }
        }
        (r, o) => {
            let rs = match r {
                Ok(_) => "Ok".to_string(),
                Err(e) => format!("{:?}", e),
            };
            return fail("C03/outcome", detail("success/failure differs", json!({"model": format!("{:?}", o), "actual": rs})));
        }
    }
    if st.want_sample() && m.kinds.len() >= 3 {
        let tx = text.clone();
        let k: Vec<_> = m.kinds.iter().cloned().collect();
        let steps = m.steps;
        st.sample(|| json!({"script": tx, "result_kinds_executed": k, "steps": steps}));
    }
    let jump_or_error = m.kinds.contains("goto-label") || m.kinds.contains("goto-line") || m.kinds.contains("error");
    Verdict::Pass(if m.kinds.len() >= 2 && jump_or_error { Some(fp(&(&text, &on_error, handler_at_start, file_mode))) } else { None })
}

fn case_small(t: &mut Tape, st: &mut Stats) -> Verdict {
    case_with(t, st, 40)
}
fn case_large(t: &mut Tape, st: &mut Stats) -> Verdict {
    case_with(t, st, 120)
}

pub fn property() -> Property {
    Property {
        id: "C03",
        rule: "programs of 1..40 (thorough: ..120) lines over a scripted command whose result (continue/goto label/goto line/exit/error/crash, with or without value, with jump countdowns of 0..2 and, for one jump in twenty, 300..1600) is dictated by its arguments, with labels from a small pool (duplicates, undefined targets), forward/backward/out-of-range line jumps, unknown commands, arguments reading variables, an on_error command (registered at the start or not, and registered / removed by the scripted command while the script runs) answering continue/exit/crash/error/goto or writing a variable, and recording the variables it sees when called, text or file mode, one script in five starting with an !include_files of 1..4 empty / comment lines (whose empty instructions precede the script's own, so jump targets shift while source lines do not); compared with an abstract machine transcribed from the statement: full call log (arguments, line index, output variable), on_error call log, final variables, Ok/Err with source line (and source file). Non-trivial: >=2 result kinds executed and >=1 jump or error; distinct by (script, configuration) hash",
        assumptions: &[
            "instructions with an output variable but no command, and exit values that are integers written with a plus sign / spaces or outside i32, are not generated (zero written as 00, 000 or -0 is an integer zero: the run succeeds)",
            "error messages written in the script are plain text; messages that come from a variable may hold a backslash before '$' or '%' (they reach on_error verbatim)",
        ],
        sections: vec![
            Section {
                name: "programs",
                plan: |t| match t {
                    Tier::Quick => Plan::Random { cases: 150_000, max_len: 700 },
                    Tier::Thorough => Plan::Random { cases: 20_000_000, max_len: 900 },
                },
                case: case_small,
                min_classes: &[("continue-none-deletes-set-variable", 1000), ("backward-line-jump", 1000), ("out-of-range-jump", 500), ("duplicate-label-target", 500), ("on_error-crash", 200), ("error-right-after-jump", 300), ("file-mode", 1000), ("handler-registered-during-the-run", 1000), ("handler-removed-during-the-run", 1000), ("on_error-writes-the-failing-output-variable", 50), ("script-starts-with-an-include", 10000), ("run-of-1000-or-more-instruction-executions", 150)],
            },
            Section {
                name: "large-programs",
                plan: |t| match t {
                    Tier::Quick => Plan::Skip,
                    Tier::Thorough => Plan::Random { cases: 3_000_000, max_len: 2500 },
                },
                case: case_large,
                min_classes: &[],
            },
        ],
        probes: vec![],
    }
}
