//! C09 — wrapping a command in if / elseif / while / not / an alias does not change its arguments.

use crate::engine::*;
use crate::hz::*;
use crate::props::c06::truthy;
use serde_json::json;

const FEATURES: &[&str] = &[
    "abc", "a b", " a", "a ", "a\tb", "a\t", "a#b", "a #b", "#", "\"q\"", "\"q", "q\"", "a\"b", "a \"b", "back\\slash", "trail\\", "\\$", "a\\$b", "$", "a$b", "50%", "%",
    "50% off", "${x}", "%{x}", "a${", "\r", "a\nb", "", "é日😀", "a=b", "=", "=x", ":l", "-r", "\u{a0}", "a\u{a0}", "and", "(", ")", "or", "!x", "'", "a  b", "\\", "\\\\", "\"",
    "\"\"", "{", "}", "~", "*", "a%b c", "\\%", "x\\", "a\\ b", "\u{2003}x", "x\u{2003}", "\t", "true", "false", "0", " ", "  ",
];

#[derive(Clone, Copy, Debug, PartialEq)]
enum Wrapper {
    Not,
    If,
    ElseIf,
    While,
    Alias,
}
const WRAPPERS: &[Wrapper] = &[Wrapper::Not, Wrapper::If, Wrapper::ElseIf, Wrapper::While, Wrapper::Alias];

#[derive(Clone, Copy, Debug, PartialEq)]
enum Pred {
    Cap,
    UserFn,
    /// a user function that ends without a value (bare return / running into its end) after a command with a truthy output
    UserFnNoValue,
    Equals,
    Contains,
    StartsWith,
    IsEmpty,
}

/// The known classes of F11 (see DESIGN.md C09): predicates on a value and its position.
pub fn known_class(v: &str, is_first: bool, is_last: bool) -> Option<&'static str> {
    if v.contains('\r') || v.contains('\n') {
        return Some("cr-or-lf");
    }
    if v.starts_with('"') {
        return Some("leading-quote");
    }
    if v.contains('"') && v.contains(' ') {
        return Some("quote-with-space");
    }
    if v.contains('#') && !v.contains(' ') {
        return Some("hash-without-space");
    }
    if v.contains("\\$") || v.contains("\\%") {
        return Some("backslash-before-dollar-or-percent");
    }
    if v.contains("${") || v.contains("%{") {
        return Some("expansion-opener");
    }
    if is_last && !v.is_empty() && !v.contains(' ') && v.chars().last().map(|c| c.is_whitespace()).unwrap_or(false) {
        return Some("trailing-whitespace-in-last-argument");
    }
    if is_first && v.starts_with('=') {
        return Some("equals-leading-first-argument");
    }
    None
}

fn classify(stored: &[String], vals: &[String]) -> Option<&'static str> {
    let all: Vec<&String> = stored.iter().chain(vals.iter()).collect();
    for (i, v) in all.iter().enumerate() {
        if let Some(c) = known_class(v, i == 0, i + 1 == all.len()) {
            return Some(c);
        }
    }
    None
}

fn pred_name(p: Pred, t: &mut Tape) -> &'static str {
    match p {
        Pred::Cap => t.pick(&["cap", "cap2", "hz_capture"]),
        Pred::UserFn | Pred::UserFnNoValue => "uf",
        Pred::Equals => t.pick(&["equals", "eq"]),
        Pred::Contains => "contains",
        Pred::StartsWith => "starts_with",
        Pred::IsEmpty => "is_empty",
    }
}

fn run_case(pred: Pred, wrapper: Wrapper, vals: Vec<String>, stored: Vec<String>, t: &mut Tape, st: &mut Stats) -> Verdict {
    let pname = pred_name(pred, t);
    let mut script = String::new();
    let is_fn = matches!(pred, Pred::UserFn | Pred::UserFnNoValue);
    if pred == Pred::UserFn {
        script.push_str("fn uf\n    emit uf ${1} ${2} ${3} ${4} ${5} ${6}\n    ufr = tick ufk 1\n    return ${ufr}\nend\n");
    }
    if pred == Pred::UserFnNoValue {
        script.push_str(if t.flip() { "fn uf\n    emit uf ${1} ${2} ${3} ${4} ${5} ${6}\n    ufr = tick ufk 1\n    return\nend\n" } else { "fn uf\n    emit uf ${1} ${2} ${3} ${4} ${5} ${6}\n    ufr = tick ufk 1\nend\n" });
    }
    let mut side = vec![];
    let mut refs = String::new();
    for (i, v) in vals.iter().enumerate() {
        script.push_str(&format!("a{} = put {}\n", i, side.len()));
        side.push(v.clone());
        refs.push_str(&format!(" ${{a{}}}", i));
    }
    let mut stored_refs = String::new();
    for (i, v) in stored.iter().enumerate() {
        script.push_str(&format!("s{} = put {}\n", i, side.len()));
        side.push(v.clone());
        stored_refs.push_str(&format!(" ${{s{}}}", i));
    }
    // direct call (with the alias' stored arguments in front, which is what the alias stands for)
    script.push_str(&format!("d = {}{}{}\n", pname, stored_refs, refs));
    if is_fn {
        // re-arm the tick automaton so that the wrapped call sees the same answer sequence start
        script.push_str("x = tick ufk 1\n");
    }
    match wrapper {
        Wrapper::Not => script.push_str(&format!("r = not {}{}{}\n", pname, stored_refs, refs)),
        Wrapper::If => script.push_str(&format!("if {}{}{}\n    emit branch T\nelse\n    emit branch F\nend\n", pname, stored_refs, refs)),
        Wrapper::ElseIf => script.push_str(&format!("if false\n    emit branch wrong\nelseif {}{}{}\n    emit branch T\nelse\n    emit branch F\nend\n", pname, stored_refs, refs)),
        Wrapper::While => script.push_str(&format!("while {}{}{}\n    emit branch T\n    goto :out\nend\nemit branch F\n:out\n", pname, stored_refs, refs)),
        Wrapper::Alias => script.push_str(&format!("alias al {}{}\nr = al{}\n", pname, stored_refs, refs)),
    }
    script.push_str("emit done\n");
    let class = classify(&stored, &vals);
    st.class(&format!("wrapper-{:?}", wrapper));
    st.class(&format!("predicate-{:?}", pred));
    let nontrivial = vals.iter().chain(stored.iter()).any(|v| v.is_empty() || v.chars().any(|c| !c.is_ascii_alphanumeric()));

    hz_reset();
    // cap answers: same answer for the direct and the wrapped invocation
    let ans = if t.flip() { "true" } else { "false" };
    with_hz(|h| {
        h.side = side;
        h.cap_answers = vec![ans.to_string(), ans.to_string()];
    });
    let out = run_text(&script, sdk_context(), 20_000, None);
    let desc = |what: &str, extra: serde_json::Value| json!({"script": script, "values": vals, "alias_stored_arguments": stored, "wrapper": format!("{:?}", wrapper), "predicate": pname, "mismatch": what, "detail": extra});
    let failv = |what: &str, extra: serde_json::Value| match class {
        Some(c) => fail(&format!("C09/value-class={}", c), desc(what, extra)),
        None => fail(&format!("C09/{:?}/{}", wrapper, what), desc(what, extra)),
    };
    let ctx = match out.result {
        Ok(c) => c,
        Err(e) => return failv("run-error", json!(format!("{:?}", e))),
    };
    let trace = with_hz(|h| h.trace.clone());
    let mut expected_args: Vec<String> = stored.clone();
    expected_args.extend(vals.iter().cloned());
    // direct result
    let d = ctx.variables.get("d").cloned();
    // observed argument vectors
    match pred {
        Pred::Cap => {
            let caps: Vec<&Event> = trace.iter().filter(|e| e.cmd == "cap").collect();
            if caps.is_empty() || caps[0].args != expected_args {
                // the direct call itself is C02's business; report as harness-level inconsistency
                return failv("direct-call-arguments", json!({"received": caps.first().map(|e| e.args.clone())}));
            }
            if caps.len() != 2 {
                return failv("wrapped-command-not-invoked-once", json!({"invocations": caps.len()}));
            }
            if caps[1].args != caps[0].args {
                return failv("arguments-differ", json!({"direct": caps[0].args, "wrapped": caps[1].args}));
            }
        }
        Pred::UserFn | Pred::UserFnNoValue => {
            let ufs: Vec<&Event> = trace.iter().filter(|e| e.cmd == "emit" && e.args.first().map(|a| a == "uf").unwrap_or(false)).collect();
            if ufs.len() != 2 {
                return failv("wrapped-command-not-invoked-once", json!({"invocations": ufs.len()}));
            }
            if ufs[1].args != ufs[0].args {
                return failv("arguments-differ", json!({"direct": ufs[0].args, "wrapped": ufs[1].args}));
            }
        }
        _ => {}
    }
    // outcome determined by the direct call's output
    let direct_truth = truthy(d.as_deref());
    match wrapper {
        Wrapper::Not => {
            let r = ctx.variables.get("r").cloned();
            let want = if direct_truth { "false" } else { "true" };
            if r.as_deref() != Some(want) {
                return failv("outcome-differs", json!({"direct_output": d, "not_output": r}));
            }
        }
        Wrapper::Alias => {
            let r = ctx.variables.get("r").cloned();
            if r != d {
                return failv("outcome-differs", json!({"direct_output": d, "alias_output": r}));
            }
        }
        _ => {
            let b: Vec<String> = trace.iter().filter(|e| e.cmd == "emit" && e.args.first().map(|a| a == "branch").unwrap_or(false)).map(|e| e.args[1].clone()).collect();
            let want = if direct_truth { "T" } else { "F" };
            if b != vec![want.to_string()] {
                return failv("outcome-differs", json!({"direct_output": d, "branches": b}));
            }
        }
    }
    if class.is_some() {
        // a value of a known class that happened to survive (e.g. harmless position): counted, not asserted
        st.class("known-class-value-survived");
    }
    if st.want_sample() && nontrivial && class.is_none() {
        let s = script.clone();
        st.sample(|| json!({"script": s}));
    }
    Verdict::Pass(if nontrivial && class.is_none() { Some(fp(&(format!("{:?}{:?}", wrapper, pred), &vals, &stored))) } else { None })
}

fn compose(t: &mut Tape) -> String {
    let n = 1 + t.len(2);
    let mut s = String::new();
    for _ in 0..n {
        match t.weighted(&[4, 1]) {
            0 => s.push_str(t.pick(FEATURES)),
            _ => s.push_str(&crate::gen::hazard_string(t, 2)),
        }
    }
    s
}

fn case_random(t: &mut Tape, st: &mut Stats) -> Verdict {
    let pred = *t.pick_ref(&[Pred::Cap, Pred::Cap, Pred::UserFn, Pred::UserFnNoValue, Pred::Equals, Pred::Contains, Pred::StartsWith, Pred::IsEmpty]);
    let mut wrapper = *t.pick_ref(WRAPPERS);
    if wrapper == Wrapper::Alias && matches!(pred, Pred::UserFn | Pred::UserFnNoValue) {
        // known finding C09/alias-of-user-function (excluded by construction, re-confirmed by a probe)
        wrapper = Wrapper::Not;
        st.class("excluded-alias-of-user-function");
    }
    let n = match pred {
        Pred::IsEmpty => 1,
        Pred::Equals | Pred::Contains | Pred::StartsWith => 2,
        _ => 1 + t.below(4),
    };
    let mut stored = vec![];
    if wrapper == Wrapper::Alias && matches!(pred, Pred::Cap | Pred::UserFn | Pred::UserFnNoValue) {
        for _ in 0..t.below(3) {
            stored.push(compose(t));
        }
    }
    let mut vals: Vec<String> = vec![];
    // library predicates get related values so that both outcomes occur
    for i in 0..n {
        if i > 0 && !matches!(pred, Pred::Cap | Pred::UserFn | Pred::UserFnNoValue) && t.flip() {
            let base = vals[0].clone();
            let v = match t.below(3) {
                0 => base,
                1 => base.chars().take(1 + t.below(3)).collect(),
                _ => compose(t),
            };
            vals.push(v);
        } else {
            vals.push(compose(t));
        }
    }
    // strict domain first: most cases avoid the known classes so that the search continues behind them
    if classify(&stored, &vals).is_some() && t.chance(3, 4) {
        for v in vals.iter_mut().chain(stored.iter_mut()) {
            *v = v.replace(['\r', '\n', '"', '#'], "_").replace("\\$", "\\_").replace("\\%", "\\_").replace("${", "$_").replace("%{", "%_");
        }
        st.class("sanitised-into-strict-domain");
    }
    run_case(pred, wrapper, vals, stored, t, st)
}


/// (sequences) several wrapped invocations in ONE run: what an earlier wrapped call was given must not leak into a
/// later one. The argument lists of consecutive calls are related: equal, or the same text cut at other boundaries.
fn case_sequence(t: &mut Tape, st: &mut Stats) -> Verdict {
    let calls = 2 + t.below(4);
    let mut lists: Vec<Vec<String>> = vec![];
    for j in 0..calls {
        let fresh = |t: &mut Tape| -> Vec<String> {
            let n = 1 + t.below(4);
            (0..n)
                .map(|_| {
                    let v = compose(t);
                    v.replace(['\r', '\n', '"', '#'], "_").replace("\\$", "\\_").replace("\\%", "\\_").replace("${", "$_").replace("%{", "%_")
                })
                .collect()
        };
        let l = if j == 0 {
            fresh(t)
        } else {
            match t.weighted(&[3, 2, 2]) {
                0 => {
                    // same text, same number of arguments, other boundaries
                    let prev = lists[t.below(j)].clone();
                    let all: Vec<char> = prev.concat().chars().collect();
                    let n = prev.len();
                    let mut cuts: Vec<usize> = (0..n - 1).map(|_| t.below(all.len() + 1)).collect();
                    cuts.sort();
                    let mut out = vec![];
                    let mut at = 0;
                    for c in cuts {
                        out.push(all[at..c].iter().collect::<String>());
                        at = c;
                    }
                    out.push(all[at..].iter().collect::<String>());
                    if out != prev {
                        st.class("same-text-cut-at-other-boundaries");
                    }
                    out
                }
                1 => {
                    st.class("same-arguments-again");
                    lists[t.below(j)].clone()
                }
                _ => fresh(t),
            }
        };
        lists.push(l);
    }
    for l in &lists {
        if classify(&[], l).is_some() {
            return Verdict::Discard("value of a known class");
        }
    }
    // a scoped function: it sees exactly the arguments of the current call (unscoped, ${2}.. of an earlier call would linger)
    let mut script = String::from("fn <scope> uf\n    emit uf ${1} ${2} ${3} ${4} ${5} ${6}\n    ufr = cap\n    return ${ufr}\nend\n");
    let mut side = vec![];
    let mut answers = vec![];
    let mut plan = vec![];
    for (j, l) in lists.iter().enumerate() {
        let mut refs = String::new();
        for (i, v) in l.iter().enumerate() {
            script.push_str(&format!("a{}_{} = put {}\n", j, i, side.len()));
            side.push(v.clone());
            refs.push_str(&format!(" ${{a{}_{}}}", j, i));
        }
        let use_fn = t.chance(1, 3);
        let mut wrapper = *t.pick_ref(WRAPPERS);
        if wrapper == Wrapper::Alias && use_fn {
            wrapper = Wrapper::If;
        }
        let pname = if use_fn { "uf" } else { *t.pick_ref(&["cap", "cap2", "hz_capture"]) };
        let direct_first = t.chance(2, 3);
        let ans = if t.flip() { "true" } else { "false" };
        if direct_first {
            script.push_str(&format!("d{} = {}{}\n", j, pname, refs));
            answers.push(ans.to_string());
        }
        answers.push(ans.to_string());
        match wrapper {
            Wrapper::Not => script.push_str(&format!("r{} = not {}{}\n", j, pname, refs)),
            Wrapper::If => script.push_str(&format!("if {}{}\n    emit branch {} T\nelse\n    emit branch {} F\nend\n", pname, refs, j, j)),
            Wrapper::ElseIf => script.push_str(&format!("if false\n    emit branch {} wrong\nelseif {}{}\n    emit branch {} T\nelse\n    emit branch {} F\nend\n", j, pname, refs, j, j)),
            Wrapper::While => script.push_str(&format!("while {}{}\n    emit branch {} T\n    goto :out{}\nend\nemit branch {} F\n:out{}\n", pname, refs, j, j, j, j)),
            Wrapper::Alias => script.push_str(&format!("alias al{} {}\nr{} = al{}{}\n", j, pname, j, j, refs)),
        }
        st.class(&format!("wrapper-{:?}", wrapper));
        plan.push((j, wrapper, use_fn, direct_first, ans == "true"));
    }
    script.push_str("emit done\n");
    hz_reset();
    with_hz(|h| {
        h.side = side;
        h.cap_answers = answers;
    });
    let out = run_text(&script, sdk_context(), 40_000, None);
    let desc = |what: &str, extra: serde_json::Value| json!({"script": script, "argument_lists": lists, "mismatch": what, "detail": extra});
    let ctx = match out.result {
        Ok(c) => c,
        Err(e) => return fail("C09/sequence/run-error", desc("run failed", json!(format!("{:?}", e)))),
    };
    // observed invocations, in order: cap events carry the arguments (capture predicate) or follow an `emit uf` (function)
    let trace = with_hz(|h| h.trace.clone());
    let mut seen: Vec<Vec<String>> = vec![];
    let mut i = 0;
    while i < trace.len() {
        let e = &trace[i];
        if e.cmd == "emit" && e.args.first().map(|a| a == "uf").unwrap_or(false) {
            seen.push(e.args[1..].to_vec());
            i += 2; // the function's own `cap`
            continue;
        }
        if e.cmd == "cap" {
            seen.push(e.args.clone());
        }
        i += 1;
    }
    let mut k = 0;
    for (j, wrapper, use_fn, direct_first, ans) in &plan {
        let l = &lists[*j];
        let want: Vec<String> = if *use_fn {
            // the function prints ${1}..${6}: empty and missing arguments vanish from the emit line
            l.iter().filter(|v| !v.is_empty()).cloned().collect::<Vec<_>>()
        } else {
            l.clone()
        };
        let n_inv = if *direct_first { 2 } else { 1 };
        for which in 0..n_inv {
            let got = seen.get(k).cloned();
            k += 1;
            let norm = |g: &Vec<String>| -> Vec<String> { if *use_fn { g.iter().flat_map(|x| x.split(' ').map(|s| s.to_string()).collect::<Vec<_>>()).filter(|s| !s.is_empty()).collect() } else { g.clone() } };
            let want_n = norm(&want);
            if got.as_ref().map(|g| norm(g)) != Some(want_n) {
                let wrapped = which + 1 == n_inv;
                if !wrapped {
                    return fail("C09/sequence/direct-call-arguments", desc("direct call", json!({"call": j, "expected": want, "received": got})));
                }
                return fail(&format!("C09/sequence/{:?}/arguments-differ", wrapper), desc("a wrapped call did not receive the arguments written for it", json!({"call": j, "expected": want, "received": got})));
            }
        }
        // outcome
        let ok = match wrapper {
            Wrapper::Not => ctx.variables.get(&format!("r{}", j)).map(|s| s.as_str()) == Some(if *ans { "false" } else { "true" }),
            Wrapper::Alias => ctx.variables.get(&format!("r{}", j)).map(|s| s.as_str()) == Some(if *ans { "true" } else { "false" }),
            _ => {
                let b: Vec<String> = trace.iter().filter(|e| e.cmd == "emit" && e.args.len() == 3 && e.args[0] == "branch" && e.args[1] == j.to_string()).map(|e| e.args[2].clone()).collect();
                b == vec![if *ans { "T" } else { "F" }.to_string()]
            }
        };
        if !ok {
            return fail(&format!("C09/sequence/{:?}/outcome-differs", wrapper), desc("branch / output is not the one the predicate's answer determines", json!({"call": j, "answer": ans})));
        }
    }
    if seen.len() != k {
        return fail("C09/sequence/extra-invocations", desc("more predicate invocations than written", json!({"expected": k, "seen": seen.len()})));
    }
    if st.want_sample() {
        let s = script.clone();
        st.sample(|| json!({"script": s}));
    }
    Verdict::Pass(Some(fp(&(&script, &lists))))
}


/// (after-failures) a wrapped call does not depend on how many wrapped calls before it went wrong: 1..100 alias / not
/// calls whose rebuilt line cannot be parsed (a value of the known class leading-quote; their own outcome is not
/// judged), then a call with plain values that must receive its arguments and decide by its answer.
fn case_after_failures(t: &mut Tape, st: &mut Stats) -> Verdict {
    let failures = 1 + t.below(100);
    let use_alias = t.chance(2, 3);
    let mut script = String::from("bad = put 0\nalias al cap\n");
    for _ in 0..failures {
        script.push_str(if use_alias { "x = al ${bad}\n" } else { "x = not cap ${bad}\n" });
    }
    script.push_str("x = unset x\np = put 1\nq = put 2\nd = cap ${p} ${q}\n");
    let wrapper = *t.pick_ref(&[Wrapper::Alias, Wrapper::Alias, Wrapper::Not, Wrapper::If]);
    match wrapper {
        Wrapper::Alias => script.push_str("r = al ${p} ${q}\n"),
        Wrapper::Not => script.push_str("r = not cap ${p} ${q}\n"),
        _ => script.push_str("if cap ${p} ${q}\n    emit branch T\nelse\n    emit branch F\nend\n"),
    }
    script.push_str("emit done\n");
    let vals = vec![compose_plain(t), compose_plain(t)];
    hz_reset();
    let ans = if t.flip() { "true" } else { "false" };
    with_hz(|h| {
        h.side = vec!["\"x".to_string(), vals[0].clone(), vals[1].clone()];
        // the failing calls never reach the command; should one reach it, it is answered like the others
        h.cap_answers = vec![ans.to_string(); 2 + failures + 2];
    });
    let out = run_text(&script, sdk_context(), 60_000, None);
    if failures >= 64 {
        st.class("at-least-64-failed-wrapped-calls-before");
    }
    let d = |what: &str, extra: serde_json::Value| json!({"failed_wrapped_calls_before": failures, "failing_calls_through": if use_alias { "alias" } else { "not" }, "final_call": format!("{:?}", wrapper), "values": vals, "script_tail": script.lines().rev().take(9).collect::<Vec<_>>().into_iter().rev().collect::<Vec<_>>(), "mismatch": what, "detail": extra});
    let ctx = match out.result {
        Ok(c) => c,
        Err(e) => return fail("C09/after-failures/run-error", d("run failed", json!(format!("{:?}", e)))),
    };
    let trace = with_hz(|h| h.trace.clone());
    let caps: Vec<&Event> = trace.iter().filter(|e| e.cmd == "cap" && e.args == vals).collect();
    if caps.len() != 2 {
        return fail(&format!("C09/after-failures/{:?}/arguments-differ", wrapper), d("the direct and the wrapped call must both receive the two values", json!({"invocations_with_these_arguments": caps.len(), "all_capture_invocations": trace.iter().filter(|e| e.cmd == "cap").map(|e| e.args.clone()).collect::<Vec<_>>().into_iter().rev().take(4).collect::<Vec<_>>()})));
    }
    let truth = ans == "true";
    let ok = match wrapper {
        Wrapper::Alias => ctx.variables.get("r").map(|s| s.as_str()) == Some(ans),
        Wrapper::Not => ctx.variables.get("r").map(|s| s.as_str()) == Some(if truth { "false" } else { "true" }),
        _ => trace.iter().filter(|e| e.cmd == "emit" && e.args.first().map(|a| a == "branch").unwrap_or(false)).map(|e| e.args[1].clone()).collect::<Vec<_>>() == vec![if truth { "T" } else { "F" }.to_string()],
    };
    if !ok {
        return fail(&format!("C09/after-failures/{:?}/outcome-differs", wrapper), d("result is not the one the answer determines", json!({"answer": ans, "r": ctx.variables.get("r")})));
    }
    Verdict::Pass(Some(fp(&(failures, use_alias, format!("{:?}", wrapper), &vals))))
}

fn compose_plain(t: &mut Tape) -> String {
    let mut v = compose(t);
    v = v.replace(['\r', '\n', '"', '#'], "_").replace("\\$", "\\_").replace("\\%", "\\_").replace("${", "$_").replace("%{", "%_");
    if known_class(&v, true, true).is_some() || v.is_empty() {
        "plain".to_string()
    } else {
        v
    }
}

/// exhaustive grid: single feature values x wrappers x positions (3 arguments, cap predicate)
fn grid_size() -> u64 {
    (FEATURES.len() * WRAPPERS.len() * 3 * 2) as u64
}

fn case_grid(t: &mut Tape, st: &mut Stats) -> Verdict {
    let idx = (((t.raw() as u64) << 32) | t.raw() as u64) as usize;
    let f = FEATURES[idx % FEATURES.len()];
    let w = WRAPPERS[(idx / FEATURES.len()) % WRAPPERS.len()];
    let pos = (idx / FEATURES.len() / WRAPPERS.len()) % 3;
    let mut pred = if (idx / FEATURES.len() / WRAPPERS.len() / 3) % 2 == 0 { Pred::Cap } else { Pred::UserFn };
    if w == Wrapper::Alias {
        pred = Pred::Cap;
    }
    let mut vals = vec!["p".to_string(), "q".to_string(), "r".to_string()];
    vals[pos] = f.to_string();
    run_case(pred, w, vals, vec![], t, st)
}

fn probe(value: &'static str, last: bool) -> Option<String> {
    // returns a description when the value is still altered by the `not` wrapper
    hz_reset();
    let vals = if last { vec!["p".to_string(), value.to_string()] } else { vec![value.to_string(), "p".to_string()] };
    with_hz(|h| {
        h.side = vals.clone();
        h.cap_answers = vec!["true".into(), "true".into()];
    });
    let script = "a0 = put 0\na1 = put 1\nd = cap ${a0} ${a1}\nr = not cap ${a0} ${a1}\n";
    let _ = run_text(script, sdk_context(), 5_000, None);
    let caps: Vec<Vec<String>> = with_hz(|h| h.trace.iter().filter(|e| e.cmd == "cap").map(|e| e.args.clone()).collect());
    if caps.len() == 2 && caps[0] == caps[1] {
        None
    } else {
        Some(format!("value {:?}: direct call received {:?}, call wrapped in 'not' received {:?}", value, caps.get(0), caps.get(1)))
    }
}

fn probe_alias_of_function() -> Option<String> {
    hz_reset();
    let script = "fn uf\n    emit uf ${1}\n    return true\nend\nd = uf x\nalias al uf\nr = al x\nemit done\n";
    let out = run_text(script, sdk_context(), 5_000, None);
    let n = with_hz(|h| h.trace.iter().filter(|e| e.cmd == "emit" && e.args.first().map(|a| a == "done").unwrap_or(false)).count());
    if out.fuel_exhausted || out.result.is_err() || n != 1 {
        Some(format!("alias of a user function: fuel exhausted={} result ok={} 'done' reached {} times", out.fuel_exhausted, out.result.is_ok(), n))
    } else {
        None
    }
}

pub fn property() -> Property {
    Property {
        id: "C09",
        rule: "a predicate (harness capture command under three names, a user function returning a value, a user function ending without a value after a command with a truthy output, equals/contains/starts_with/is_empty) called directly and then wrapped in not / if / elseif / while / a script-level alias (0..2 stored arguments), with 1..4 argument values delivered through variables and composed from 64 feature fragments and hazard strings; the wrapped invocation must receive the same argument vector as the direct one and the branch / not output / alias result must be the one the direct output determines. (grid) every single feature x wrapper x argument position x {capture, user function} exhaustively. (after-failures) 1..100 alias / not calls whose rebuilt line cannot be parsed (known class leading-quote, outcome not judged) followed by one strict wrapped call; (sequences) 2..5 wrapped invocations in one run (each its own wrapper, capture or user function, with or without a preceding direct call) whose argument lists are equal to an earlier one, or the same text cut at other boundaries, or fresh: each must receive the list written for it and decide by its own answer. Values falling in a class listed in KNOWN_FINDINGS.txt are counted separately (excluded_known) and re-confirmed by probes; everything else is strict. Non-trivial: a value that is empty or has a non-alphanumeric character, outside the known classes; distinct by (wrapper, predicate, values)",
        assumptions: &[
            "the eval command itself is not a wrapper here (it is documented to expand what it is given)",
            "known classes are predicates on the final value: cr-or-lf, leading-quote, quote-with-space, hash-without-space, backslash-before-dollar-or-percent, expansion-opener, trailing-whitespace-in-last-argument, equals-leading-first-argument",
        ],
        sections: vec![
            Section {
                name: "grid",
                plan: |_| Plan::Exhaustive { count: grid_size() },
                case: case_grid,
                min_classes: &[],
            },
            Section {
                name: "sequences",
                plan: |t| match t {
                    Tier::Quick => Plan::Random { cases: 40_000, max_len: 200 },
                    Tier::Thorough => Plan::Random { cases: 1_500_000, max_len: 240 },
                },
                case: case_sequence,
                min_classes: &[("same-text-cut-at-other-boundaries", 5000), ("same-arguments-again", 5000)],
            },
            Section {
                name: "after-failures",
                plan: |t| match t {
                    Tier::Quick => Plan::Random { cases: 3_000, max_len: 40 },
                    Tier::Thorough => Plan::Random { cases: 100_000, max_len: 40 },
                },
                case: case_after_failures,
                min_classes: &[("at-least-64-failed-wrapped-calls-before", 500)],
            },
            Section {
                name: "random",
                plan: |t| match t {
                    Tier::Quick => Plan::Random { cases: 300_000, max_len: 120 },
                    Tier::Thorough => Plan::Random { cases: 7_500_000, max_len: 160 },
                },
                case: case_random,
                min_classes: &[("wrapper-Alias", 3000), ("wrapper-While", 3000), ("predicate-UserFn", 3000), ("predicate-UserFnNoValue", 3000), ("predicate-Equals", 3000)],
            },
        ],
        probes: vec![
            Probe { signature: "C09/value-class=cr-or-lf", run: || probe("a\nb", false) },
            Probe { signature: "C09/value-class=leading-quote", run: || probe("\"q\"", false) },
            Probe { signature: "C09/value-class=quote-with-space", run: || probe("a \"b", false) },
            Probe { signature: "C09/value-class=hash-without-space", run: || probe("a#b", false) },
            Probe { signature: "C09/value-class=backslash-before-dollar-or-percent", run: || probe("a\\$b", false) },
            Probe { signature: "C09/value-class=expansion-opener", run: || probe("${x}", false) },
            Probe { signature: "C09/value-class=trailing-whitespace-in-last-argument", run: || probe("a\t", true) },
            Probe { signature: "C09/value-class=equals-leading-first-argument", run: || probe("=x", false) },
            Probe { signature: "C09/alias-of-user-function", run: probe_alias_of_function },
        ],
    }
}
