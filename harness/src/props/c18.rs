//! C18 — file commands behave like operations on a simple file tree.
//! SAFETY: every path handed to a command is an absolute path below the per-case scratch directory.

use crate::engine::*;
use crate::hz::*;
use crate::props::c16::{exec, show};
use duckscript::types::command::CommandResult;
use duckscript::types::runtime::Context;
use serde_json::json;
use std::collections::BTreeMap;

#[derive(Clone, Debug, PartialEq)]
enum Node {
    Dir,
    File(Vec<u8>),
}

type Tree = BTreeMap<String, Node>;

const FILES: &[&str] = &["a.txt", "b c.dat", "é.bin", "d1/a.txt", "d1/x.txt", "d 2/n.txt", "dé/sub/deep.txt", "d1/sub/y.dat", "new/made/f.txt", "a.txt/z.txt", "d1/x.txt/w.txt", "A.TXT", "Notes.Txt", "d1/A.txt", "a.txt.tmp", "d1/a.txt.tmp", "a.txt~"];
const DIRS: &[&str] = &["d1", "d 2", "dé", "dé/sub", "d1/sub", "e1", "e1/e2", "new"];

fn parent(p: &str) -> Option<&str> {
    p.rfind('/').map(|i| &p[..i])
}

fn ancestors_ok(t: &Tree, p: &str) -> bool {
    // every proper ancestor is absent or a directory
    let mut cur = p;
    while let Some(a) = parent(cur) {
        if let Some(Node::File(_)) = t.get(a) {
            return false;
        }
        cur = a;
    }
    true
}

fn make_parents(t: &mut Tree, p: &str) {
    let mut cur = p;
    while let Some(a) = parent(cur) {
        t.entry(a.to_string()).or_insert(Node::Dir);
        cur = a;
    }
}

fn children<'a>(t: &'a Tree, d: &str) -> Vec<&'a String> {
    let pre = format!("{}/", d);
    t.keys().filter(|k| k.starts_with(&pre)).collect()
}

fn walk(root: &str) -> Tree {
    let mut t = Tree::new();
    fn rec(base: &str, rel: &str, t: &mut Tree) {
        let dir = if rel.is_empty() { base.to_string() } else { format!("{}/{}", base, rel) };
        if let Ok(rd) = std::fs::read_dir(&dir) {
            for e in rd.flatten() {
                let name = e.file_name().to_string_lossy().to_string();
                let r = if rel.is_empty() { name.clone() } else { format!("{}/{}", rel, name) };
                let md = match e.metadata() {
                    Ok(m) => m,
                    Err(_) => continue,
                };
                if md.is_dir() {
                    t.insert(r.clone(), Node::Dir);
                    rec(base, &r, t);
                } else {
                    t.insert(r.clone(), Node::File(std::fs::read(format!("{}/{}", base, r)).unwrap_or_default()));
                }
            }
        }
    }
    rec(root, "", &mut t);
    t
}

fn content(t: &mut Tape) -> Vec<u8> {
    let mut s = crate::gen::hazard_string(t, 4);
    s.retain(|c| c != '$' && c != '%' && c != '\\');
    s.into_bytes()
}

fn ok_true(r: &CommandResult) -> bool {
    matches!(r, CommandResult::Continue(Some(v)) if v == "true")
}

fn failed(r: &CommandResult) -> bool {
    matches!(r, CommandResult::Error(_)) || matches!(r, CommandResult::Continue(Some(v)) if v == "false")
}

fn b64(data: &[u8]) -> String {
    const A: &[u8] = b"ABCDEFGHIJKLMNOPQRSTUVWXYZabcdefghijklmnopqrstuvwxyz0123456789+/";
    let mut out = String::new();
    for chunk in data.chunks(3) {
        let b = [chunk[0], *chunk.get(1).unwrap_or(&0), *chunk.get(2).unwrap_or(&0)];
        let n = ((b[0] as u32) << 16) | ((b[1] as u32) << 8) | b[2] as u32;
        out.push(A[(n >> 18) as usize & 63] as char);
        out.push(A[(n >> 12) as usize & 63] as char);
        out.push(if chunk.len() > 1 { A[(n >> 6) as usize & 63] as char } else { '=' });
        out.push(if chunk.len() > 2 { A[n as usize & 63] as char } else { '=' });
    }
    out
}

fn case(t: &mut Tape, st: &mut Stats, max_len: usize) -> Verdict {
    let root = format!("{}/c18-{:?}", scratch_root(), std::thread::current().id()).replace(['(', ')'], "");
    let _ = std::fs::remove_dir_all(&root);
    std::fs::create_dir_all(&root).expect("mkdir");
    // hard safety net: refuse to run if the scratch root is not where it must be
    assert!(root.contains("/dsverif-") && root.matches('/').count() >= 3, "harness: unsafe scratch root {}", root);
    let abs = |rel: &str| format!("{}/{}", root, rel);
    let mut ctx: Context = sdk_context();
    let mut m: Tree = Tree::new();
    let n = 1 + t.len(max_len - 1);
    let mut log: Vec<String> = vec![];
    let mut failing_ops = 0;
    let mut onto_existing = false;
    for step in 0..n {
        let file = |t: &mut Tape| t.pick(FILES).to_string();
        let dirp = |t: &mut Tape| t.pick(DIRS).to_string();
        let existing_file = |t: &mut Tape, m: &Tree| -> Option<String> {
            let v: Vec<&String> = m.iter().filter(|(_, n)| matches!(n, Node::File(_))).map(|(k, _)| k).collect();
            if v.is_empty() {
                None
            } else {
                Some(v[t.below(v.len())].clone())
            }
        };
        let anyp = |t: &mut Tape| if t.flip() { t.pick(FILES).to_string() } else { t.pick(DIRS).to_string() };
        macro_rules! bail {
            ($sig:expr, $extra:expr) => {{
                let _ = std::fs::remove_dir_all(&root);
                return fail($sig, json!({"history": log, "failing_step": step, "detail": $extra}));
            }};
        }
        let op = t.weighted(&[6, 3, 3, 2, 2, 2, 3, 3, 3, 2, 3, 2, 1, 2]);
        let mut before = m.clone();
        let (cmd, args, verdict): (&str, Vec<String>, Result<(), String>);
        match op {
            0 | 1 => {
                // writefile / appendfile
                let p = if t.chance(1, 6) { dirp(t) } else { file(t) };
                let mut c = content(t);
                let big = t.chance(1, 40);
                if big {
                    // a text whose multi-byte character straddles (or touches) a multiple of 8192 bytes
                    let j = 1 + t.below(2);
                    let d = t.below(4);
                    let mut s = "a".repeat(8192 * j - d);
                    s.push_str(t.pick(&["é", "日", "😀"]));
                    s.push_str(&String::from_utf8(c.clone()).unwrap());
                    c = s.into_bytes();
                    st.class("text-with-a-multi-byte-character-at-a-multiple-of-8192-bytes");
                }
                let text = String::from_utf8(c.clone()).unwrap();
                let append = op == 1;
                cmd = if append { "appendfile" } else { "writefile" };
                args = vec![abs(&p), text];
                let r = exec(&mut ctx, cmd, &args);
                let can = ancestors_ok(&m, &p) && !matches!(m.get(&p), Some(Node::Dir));
                if can {
                    make_parents(&mut m, &p);
                    let old = match m.get(&p) {
                        Some(Node::File(b)) if append => b.clone(),
                        _ => vec![],
                    };
                    let mut nb = old;
                    nb.extend_from_slice(&c);
                    let whole = nb.clone();
                    m.insert(p.clone(), Node::File(nb));
                    let mut v = if ok_true(&r) { Ok(()) } else { Err(format!("expected true, got {}", show(&r))) };
                    if big && v.is_ok() {
                        // what was written is what is read
                        if let Ok(s) = String::from_utf8(whole) {
                            let rr = exec(&mut ctx, "readfile", &[abs(&p)]);
                            if !matches!(&rr, CommandResult::Continue(Some(x)) if *x == s) {
                                v = Err(format!("readfile right after the write of {} bytes: expected the text written, got {}", s.len(), show(&rr).chars().take(120).collect::<String>()));
                            }
                        }
                    }
                    verdict = v;
                } else {
                    failing_ops += 1;
                    verdict = if failed(&r) { Ok(()) } else { Err(format!("expected a failure, got {}", show(&r))) };
                }
            }
            2 => {
                let p = if t.chance(1, 5) { dirp(t) } else { existing_file(t, &m).unwrap_or_else(|| file(t)) };
                cmd = "readfile";
                args = vec![abs(&p)];
                let r = exec(&mut ctx, cmd, &args);
                verdict = match m.get(&p) {
                    Some(Node::File(b)) => match String::from_utf8(b.clone()) {
                        Ok(s) => {
                            if matches!(&r, CommandResult::Continue(Some(v)) if *v == s) {
                                Ok(())
                            } else {
                                Err(format!("expected content {:?}, got {}", s, show(&r)))
                            }
                        }
                        Err(_) => Ok(()),
                    },
                    _ => {
                        failing_ops += 1;
                        if matches!(r, CommandResult::Error(_) | CommandResult::Continue(None)) || failed(&r) {
                            Ok(())
                        } else {
                            Err(format!("expected none/error, got {}", show(&r)))
                        }
                    }
                };
            }
            3 => {
                // binary write + read back
                let p = file(t);
                let mut bytes = content(t);
                if t.flip() {
                    bytes.extend_from_slice(&[0xff, 0x00, 0xfe, t.below(256) as u8]);
                }
                let h = match exec(&mut ctx, "base64_decode", &[b64(&bytes)]) {
                    CommandResult::Continue(Some(h)) => h,
                    other => bail!("C18/harness/base64_decode", json!(show(&other))),
                };
                cmd = "writebinfile";
                args = vec![abs(&p), h.clone()];
                let r = exec(&mut ctx, cmd, &args);
                let can = ancestors_ok(&m, &p) && !matches!(m.get(&p), Some(Node::Dir));
                if can {
                    make_parents(&mut m, &p);
                    m.insert(p.clone(), Node::File(bytes.clone()));
                    if !ok_true(&r) {
                        verdict = Err(format!("expected true, got {}", show(&r)));
                    } else {
                        // read it back through readbinfile
                        match exec(&mut ctx, "readbinfile", &[abs(&p)]) {
                            CommandResult::Continue(Some(h2)) => {
                                let e = exec(&mut ctx, "base64_encode", &[h2.clone()]);
                                let _ = exec(&mut ctx, "release", &[h2]);
                                verdict = if matches!(&e, CommandResult::Continue(Some(v)) if *v == b64(&bytes)) { Ok(()) } else { Err(format!("readbinfile returned different bytes: {}", show(&e))) };
                            }
                            other => verdict = Err(format!("readbinfile failed: {}", show(&other))),
                        }
                    }
                } else {
                    failing_ops += 1;
                    let first: Result<(), String> = if failed(&r) { Ok(()) } else { Err(format!("expected a failure, got {}", show(&r))) };
                    // the same data, still held by the script, written to another path right after the refused write
                    let p2 = file(t);
                    if first.is_ok() && ancestors_ok(&m, &p2) && !matches!(m.get(&p2), Some(Node::Dir)) {
                        st.class("binary-data-written-again-after-a-refused-write");
                        let args2 = vec![abs(&p2), h.clone()];
                        let r2 = exec(&mut ctx, cmd, &args2);
                        make_parents(&mut m, &p2);
                        m.insert(p2.clone(), Node::File(bytes.clone()));
                        verdict = if ok_true(&r2) { Ok(()) } else { Err(format!("second write of the same data to {} (after the refused write) expected true, got {}", abs(&p2), show(&r2))) };
                    } else {
                        verdict = first;
                    }
                }
                let _ = exec(&mut ctx, "release", &[h]);
            }
            4 => {
                let p = if t.chance(1, 6) { dirp(t) } else { file(t) };
                cmd = "touch";
                args = vec![abs(&p)];
                let r = exec(&mut ctx, cmd, &args);
                match m.get(&p) {
                    Some(Node::Dir) => verdict = Ok(()), // output not fixed for a directory; the tree must stay
                    Some(Node::File(_)) => verdict = if ok_true(&r) { Ok(()) } else { Err(format!("expected true, got {}", show(&r))) },
                    None => {
                        if ancestors_ok(&m, &p) {
                            make_parents(&mut m, &p);
                            m.insert(p.clone(), Node::File(vec![]));
                            verdict = if ok_true(&r) { Ok(()) } else { Err(format!("expected true, got {}", show(&r))) };
                        } else {
                            failing_ops += 1;
                            verdict = if failed(&r) { Ok(()) } else { Err(format!("expected a failure, got {}", show(&r))) };
                        }
                    }
                }
            }
            5 => {
                let p = if t.chance(1, 6) { file(t) } else { dirp(t) };
                cmd = "mkdir";
                args = vec![abs(&p)];
                let r = exec(&mut ctx, cmd, &args);
                let can = ancestors_ok(&m, &p) && !matches!(m.get(&p), Some(Node::File(_)));
                if can {
                    make_parents(&mut m, &p);
                    m.insert(p.clone(), Node::Dir);
                    verdict = if ok_true(&r) { Ok(()) } else { Err(format!("expected true, got {}", show(&r))) };
                } else {
                    failing_ops += 1;
                    verdict = if failed(&r) { Ok(()) } else { Err(format!("expected a failure, got {}", show(&r))) };
                }
            }
            6 => {
                // cp file -> target
                let src = existing_file(t, &m).unwrap_or_else(|| file(t));
                let dst = if t.chance(1, 5) { dirp(t) } else { file(t) };
                if src == dst {
                    continue;
                }
                cmd = "cp";
                args = vec![abs(&src), abs(&dst)];
                match m.get(&src).cloned() {
                    Some(Node::File(b)) => {
                        let r = exec(&mut ctx, cmd, &args);
                        let can = ancestors_ok(&m, &dst) && !matches!(m.get(&dst), Some(Node::Dir));
                        if can {
                            if m.contains_key(&dst) {
                                onto_existing = true;
                                st.class("cp-onto-existing-file");
                            }
                            make_parents(&mut m, &dst);
                            m.insert(dst.clone(), Node::File(b));
                            verdict = if ok_true(&r) { Ok(()) } else { Err(format!("expected true, got {}", show(&r))) };
                        } else {
                            failing_ops += 1;
                            verdict = if failed(&r) { Ok(()) } else { Err(format!("expected a failure, got {}", show(&r))) };
                        }
                    }
                    Some(Node::Dir) => continue, // directory sources are outside the domain
                    None => {
                        let r = exec(&mut ctx, cmd, &args);
                        failing_ops += 1;
                        verdict = if failed(&r) { Ok(()) } else { Err(format!("expected a failure, got {}", show(&r))) };
                    }
                }
            }
            7 => {
                // mv file -> file path (with extension) or an existing directory
                let src = existing_file(t, &m).unwrap_or_else(|| file(t));
                let existing_dirs: Vec<String> = m.iter().filter(|(_, n)| matches!(n, Node::Dir)).map(|(k, _)| k.clone()).collect();
                let dst = if !existing_dirs.is_empty() && t.chance(1, 3) { existing_dirs[t.below(existing_dirs.len())].clone() } else { file(t) };
                if src == dst || dst.starts_with(&format!("{}/", src)) {
                    continue;
                }
                cmd = "mv";
                args = vec![abs(&src), abs(&dst)];
                match m.get(&src).cloned() {
                    Some(Node::File(b)) => {
                        let target_is_dir = matches!(m.get(&dst), Some(Node::Dir));
                        let final_dst = if target_is_dir { format!("{}/{}", dst, src.rsplit('/').next().unwrap()) } else { dst.clone() };
                        if final_dst == src {
                            continue;
                        }
                        if target_is_dir && m.contains_key(&final_dst) {
                            // moving into a directory that already holds an entry of that name: not settled by the documentation
                            continue;
                        }
                        let r = exec(&mut ctx, cmd, &args);
                        let can = ancestors_ok(&m, &final_dst) && !matches!(m.get(&final_dst), Some(Node::Dir));
                        if can {
                            if m.contains_key(&final_dst) {
                                onto_existing = true;
                                st.class("mv-onto-existing-file");
                            }
                            if target_is_dir {
                                onto_existing = true;
                                st.class("mv-into-directory");
                            }
                            make_parents(&mut m, &final_dst);
                            m.insert(final_dst.clone(), Node::File(b));
                            m.remove(&src);
                            verdict = if ok_true(&r) { Ok(()) } else { Err(format!("expected true, got {}", show(&r))) };
                        } else {
                            failing_ops += 1;
                            verdict = if failed(&r) { Ok(()) } else { Err(format!("expected a failure, got {}", show(&r))) };
                        }
                    }
                    Some(Node::Dir) => continue,
                    None => {
                        let r = exec(&mut ctx, cmd, &args);
                        failing_ops += 1;
                        verdict = if failed(&r) { Ok(()) } else { Err(format!("expected a failure, got {}", show(&r))) };
                    }
                }
            }
            8 => {
                // rm [-r] one path (or several that all succeed)
                let rec = t.flip();
                let p = if !m.is_empty() && t.chance(3, 4) { m.keys().nth(t.below(m.len())).unwrap().clone() } else { anyp(t) };
                cmd = "rm";
                let mut a = vec![];
                if rec {
                    a.push("-r".to_string());
                }
                a.push(abs(&p));
                let second = if t.chance(1, 4) { existing_file(t, &m).filter(|f| *f != p && !f.starts_with(&format!("{}/", p))) } else { None };
                let nonempty_dir = matches!(m.get(&p), Some(Node::Dir)) && !children(&m, &p).is_empty();
                let will_fail = nonempty_dir && !rec;
                if let (Some(s), false) = (&second, will_fail) {
                    a.push(abs(s));
                }
                args = a;
                let r = exec(&mut ctx, cmd, &args);
                if will_fail {
                    failing_ops += 1;
                    st.class("rm-non-empty-directory-without-r");
                    verdict = if failed(&r) { Ok(()) } else { Err(format!("expected a failure, got {}", show(&r))) };
                } else {
                    let existed = m.contains_key(&p);
                    let pre = format!("{}/", p);
                    m.retain(|k, _| *k != p && !k.starts_with(&pre));
                    if let Some(s) = &second {
                        m.remove(s);
                    }
                    // the output for a path that does not exist is outside the domain
                    verdict = if !existed || ok_true(&r) { Ok(()) } else { Err(format!("expected true, got {}", show(&r))) };
                }
            }
            9 => {
                let p = if !m.is_empty() && t.chance(3, 4) { m.keys().nth(t.below(m.len())).unwrap().clone() } else { dirp(t) };
                cmd = "rmdir";
                args = vec![abs(&p)];
                let r = exec(&mut ctx, cmd, &args);
                match m.get(&p) {
                    None => verdict = if ok_true(&r) { Ok(()) } else { Err(format!("expected true for a missing path, got {}", show(&r))) },
                    Some(Node::Dir) if children(&m, &p).is_empty() => {
                        m.remove(&p);
                        verdict = if ok_true(&r) { Ok(()) } else { Err(format!("expected true, got {}", show(&r))) };
                    }
                    _ => {
                        failing_ops += 1;
                        verdict = if failed(&r) { Ok(()) } else { Err(format!("expected false, got {}", show(&r))) };
                    }
                }
            }
            10 => {
                let p = anyp(t);
                let which = t.below(3);
                cmd = ["is_path_exists", "is_file", "is_dir"][which];
                args = vec![abs(&p)];
                let r = exec(&mut ctx, cmd, &args);
                let want = match which {
                    0 => m.contains_key(&p),
                    1 => matches!(m.get(&p), Some(Node::File(_))),
                    _ => matches!(m.get(&p), Some(Node::Dir)),
                };
                verdict = if matches!(&r, CommandResult::Continue(Some(v)) if *v == want.to_string()) { Ok(()) } else { Err(format!("expected {}, got {}", want, show(&r))) };
            }
            11 => {
                let p = existing_file(t, &m).unwrap_or_else(|| anyp(t));
                cmd = "get_file_size";
                args = vec![abs(&p)];
                let r = exec(&mut ctx, cmd, &args);
                verdict = match m.get(&p) {
                    Some(Node::File(b)) => {
                        if matches!(&r, CommandResult::Continue(Some(v)) if *v == b.len().to_string()) {
                            Ok(())
                        } else {
                            Err(format!("expected {}, got {}", b.len(), show(&r)))
                        }
                    }
                    _ => {
                        if failed(&r) {
                            Ok(())
                        } else {
                            Err(format!("expected false/error, got {}", show(&r)))
                        }
                    }
                };
            }
            12 if t.chance(1, 3) => {
                // a pattern with literal letters: direct children of one directory whose name ends in .txt, letter case included
                let d = if t.flip() { String::new() } else { "d1/".to_string() };
                cmd = "glob_array";
                args = vec![format!("{}/{}*.txt", root, d)];
                let r = exec(&mut ctx, cmd, &args);
                st.class("listing-by-a-pattern-with-literal-letters");
                verdict = match &r {
                    CommandResult::Continue(Some(h)) => {
                        let len: usize = match exec(&mut ctx, "array_length", &[h.clone()]) {
                            CommandResult::Continue(Some(l)) => l.parse().unwrap_or(0),
                            _ => 0,
                        };
                        let mut got = std::collections::BTreeSet::new();
                        for i in 0..len {
                            if let CommandResult::Continue(Some(v)) = exec(&mut ctx, "array_get", &[h.clone(), i.to_string()]) {
                                got.insert(v);
                            }
                        }
                        let _ = exec(&mut ctx, "release", &[h.clone()]);
                        let want: std::collections::BTreeSet<String> = m.keys().filter(|k| k.starts_with(&d) && !k[d.len()..].contains('/') && k.ends_with(".txt")).map(|k| abs(k)).collect();
                        if got == want && got.len() == len {
                            Ok(())
                        } else {
                            Err(format!("listing {:?}, expected {:?}", got, want))
                        }
                    }
                    other => Err(format!("no handle: {}", show(other))),
                };
            }
            12 => {
                cmd = "glob_array";
                args = vec![format!("{}/**/*", root)];
                let r = exec(&mut ctx, cmd, &args);
                verdict = match &r {
                    CommandResult::Continue(Some(h)) => {
                        let len: usize = match exec(&mut ctx, "array_length", &[h.clone()]) {
                            CommandResult::Continue(Some(l)) => l.parse().unwrap_or(0),
                            _ => 0,
                        };
                        let mut got = std::collections::BTreeSet::new();
                        for i in 0..len {
                            if let CommandResult::Continue(Some(v)) = exec(&mut ctx, "array_get", &[h.clone(), i.to_string()]) {
                                got.insert(v);
                            }
                        }
                        let _ = exec(&mut ctx, "release", &[h.clone()]);
                        let want: std::collections::BTreeSet<String> = m.keys().map(|k| abs(k)).collect();
                        if got == want {
                            Ok(())
                        } else {
                            Err(format!("listing {:?}, expected {:?}", got, want))
                        }
                    }
                    other => Err(format!("no handle: {}", show(other))),
                };
            }
            _ => {
                // basename / dirname / join_path on simple paths
                let p = anyp(t);
                match t.below(3) {
                    0 => {
                        cmd = "basename";
                        args = vec![abs(&p)];
                        let r = exec(&mut ctx, cmd, &args);
                        let want = p.rsplit('/').next().unwrap().to_string();
                        verdict = if matches!(&r, CommandResult::Continue(Some(v)) if *v == want) { Ok(()) } else { Err(format!("expected {}, got {}", want, show(&r))) };
                    }
                    1 => {
                        cmd = "dirname";
                        args = vec![abs(&p)];
                        let r = exec(&mut ctx, cmd, &args);
                        let full = abs(&p);
                        let want = full[..full.rfind('/').unwrap()].to_string();
                        verdict = if matches!(&r, CommandResult::Continue(Some(v)) if *v == want) { Ok(()) } else { Err(format!("expected {}, got {}", want, show(&r))) };
                    }
                    _ => {
                        cmd = "join_path";
                        let parts: Vec<String> = p.split('/').map(|s| s.to_string()).collect();
                        let mut a = vec![root.clone()];
                        a.extend(parts);
                        args = a;
                        let r = exec(&mut ctx, cmd, &args);
                        let want = abs(&p);
                        verdict = if matches!(&r, CommandResult::Continue(Some(v)) if *v == want) { Ok(()) } else { Err(format!("expected {}, got {}", want, show(&r))) };
                    }
                }
            }
        }
        log.push(format!("{} {:?}", cmd, args.iter().map(|a| a.replace(&root, "<root>")).collect::<Vec<_>>()));
        if let Err(e) = verdict {
            bail!(&format!("C18/{}/output", cmd), json!(e));
        }
        // the real directory against the model
        let real = walk(&root);
        if real != m {
            let changed_on_failure = before == m;
            let diff: Vec<String> = real.keys().chain(m.keys()).filter(|k| real.get(*k) != m.get(*k)).cloned().collect::<std::collections::BTreeSet<_>>().into_iter().collect();
            let _ = &mut before;
            bail!(
                &format!("C18/{}/{}", cmd, if changed_on_failure { "tree-changed-by-failing-or-read-only-operation" } else { "tree-differs" }),
                json!({"differing_paths": diff, "model": m.iter().map(|(k, v)| (k.clone(), match v { Node::Dir => "dir".to_string(), Node::File(b) => format!("file:{}", String::from_utf8_lossy(b)) })).collect::<BTreeMap<_, _>>(),
                       "actual": real.iter().map(|(k, v)| (k.clone(), match v { Node::Dir => "dir".to_string(), Node::File(b) => format!("file:{}", String::from_utf8_lossy(b)) })).collect::<BTreeMap<_, _>>()})
            );
        }
    }
    let _ = std::fs::remove_dir_all(&root);
    let nt = failing_ops >= 1 && onto_existing;
    if st.want_sample() && nt {
        let l = log.clone();
        st.sample(|| json!({"history": l}));
    }
    Verdict::Pass(if nt { Some(fp(&log)) } else { None })
}

/// (bulk) one directory with more than a thousand files and a directory chain 20..45 levels deep, built through the
/// commands; listed, sized, read, copied into and removed, against a set of paths.
fn case_bulk(t: &mut Tape, st: &mut Stats) -> Verdict {
    let root = format!("{}/c18b-{:?}", scratch_root(), std::thread::current().id()).replace(['(', ')'], "");
    let _ = std::fs::remove_dir_all(&root);
    std::fs::create_dir_all(&root).expect("mkdir");
    assert!(root.contains("/dsverif-") && root.matches('/').count() >= 3, "harness: unsafe scratch root {}", root);
    let mut ctx: Context = sdk_context();
    let files = 1030 + t.below(700);
    let levels = 20 + t.below(26);
    let mut want: std::collections::BTreeSet<String> = std::collections::BTreeSet::new();
    let finish = |v: Verdict| {
        let _ = std::fs::remove_dir_all(&root);
        v
    };
    let many = format!("{}/many", root);
    want.insert(many.clone());
    for i in 0..files {
        let p = format!("{}/f{:04}.txt", many, i);
        let r = exec(&mut ctx, if i % 3 == 0 { "touch" } else { "writefile" }, &if i % 3 == 0 { vec![p.clone()] } else { vec![p.clone(), format!("content {}", i)] });
        if !ok_true(&r) {
            return finish(fail("C18/bulk/create", json!({"path": p, "file_number": i, "got": show(&r)})));
        }
        want.insert(p);
    }
    // the deep chain: created by one write that has to make every missing parent
    let mut deep = format!("{}/deep", root);
    want.insert(deep.clone());
    for l in 0..levels {
        deep = format!("{}/d{}", deep, l);
        want.insert(deep.clone());
    }
    let leaf = format!("{}/leaf.txt", deep);
    let r = exec(&mut ctx, "writefile", &[leaf.clone(), "at the bottom".to_string()]);
    if !ok_true(&r) {
        return finish(fail("C18/bulk/deep-write", json!({"path": leaf, "levels": levels, "got": show(&r)})));
    }
    want.insert(leaf.clone());
    let list = |ctx: &mut Context, pattern: String| -> Option<std::collections::BTreeSet<String>> {
        match exec(ctx, "glob_array", &[pattern]) {
            CommandResult::Continue(Some(h)) => {
                let len: usize = match exec(ctx, "array_length", &[h.clone()]) {
                    CommandResult::Continue(Some(l)) => l.parse().ok()?,
                    _ => return None,
                };
                let mut got = std::collections::BTreeSet::new();
                for i in 0..len {
                    if let CommandResult::Continue(Some(v)) = exec(ctx, "array_get", &[h.clone(), i.to_string()]) {
                        got.insert(v);
                    }
                }
                let _ = exec(ctx, "release", &[h]);
                if got.len() != len {
                    return None;
                }
                Some(got)
            }
            _ => None,
        }
    };
    let d = |what: &str, extra: serde_json::Value| json!({"files_in_one_directory": files, "directory_levels": levels, "mismatch": what, "detail": extra});
    let diff = |got: &Option<std::collections::BTreeSet<String>>, want: &std::collections::BTreeSet<String>| match got {
        None => json!("no listing"),
        Some(g) => json!({"listed": g.len(), "expected": want.len(), "missing": want.difference(g).take(5).collect::<Vec<_>>(), "unexpected": g.difference(want).take(5).collect::<Vec<_>>()}),
    };
    let got = list(&mut ctx, format!("{}/**/*", root));
    if got.as_ref() != Some(&want) {
        return finish(fail("C18/bulk/listing", d("glob_array root/**/*", diff(&got, &want))));
    }
    let only_many: std::collections::BTreeSet<String> = want.iter().filter(|p| p.starts_with(&format!("{}/", many))).cloned().collect();
    let got = list(&mut ctx, format!("{}/*.txt", many));
    if got.as_ref() != Some(&only_many) {
        return finish(fail("C18/bulk/listing", d("glob_array many/*.txt", diff(&got, &only_many))));
    }
    // read a few back
    for _ in 0..6 {
        let i = t.below(files);
        let p = format!("{}/f{:04}.txt", many, i);
        let expect = if i % 3 == 0 { String::new() } else { format!("content {}", i) };
        let r = exec(&mut ctx, "readfile", &[p.clone()]);
        let sz = exec(&mut ctx, "get_file_size", &[p.clone()]);
        if !matches!(&r, CommandResult::Continue(Some(v)) if *v == expect) || !matches!(&sz, CommandResult::Continue(Some(v)) if *v == expect.len().to_string()) {
            return finish(fail("C18/bulk/read-back", d("readfile / get_file_size", json!({"path": p, "expected": expect, "readfile": show(&r), "size": show(&sz)}))));
        }
    }
    let r = exec(&mut ctx, "readfile", &[leaf.clone()]);
    if !matches!(&r, CommandResult::Continue(Some(v)) if v == "at the bottom") {
        return finish(fail("C18/bulk/read-back", d("readfile of the deep leaf", json!(show(&r)))));
    }
    // a non-empty directory needs -r; with -r exactly that subtree goes
    let r = exec(&mut ctx, "rm", &[many.clone()]);
    let still = std::fs::read_dir(&many).map(|d| d.count()).unwrap_or(0);
    if !failed(&r) || still != files {
        return finish(fail("C18/bulk/rm-without-r", d("rm of the directory with all the files", json!({"output": show(&r), "entries_left": still}))));
    }
    let r = exec(&mut ctx, "rm", &["-r".to_string(), format!("{}/deep/d0", root)]);
    if !ok_true(&r) {
        return finish(fail("C18/bulk/rm-r", d("rm -r deep/d0", json!(show(&r)))));
    }
    want.retain(|p| !p.starts_with(&format!("{}/deep/d0", root)));
    let got = list(&mut ctx, format!("{}/**/*", root));
    if got.as_ref() != Some(&want) {
        return finish(fail("C18/bulk/listing", d("glob_array after rm -r of the deep chain", diff(&got, &want))));
    }
    let r = exec(&mut ctx, "rm", &["-r".to_string(), many.clone()]);
    if !ok_true(&r) || std::path::Path::new(&many).exists() {
        return finish(fail("C18/bulk/rm-r", d("rm -r of the directory with all the files", json!(show(&r)))));
    }
    st.class("directory-with-over-1024-files");
    finish(Verdict::Pass(Some(fp(&(files, levels)))))
}

fn case_q(t: &mut Tape, st: &mut Stats) -> Verdict {
    case(t, st, 30)
}
fn case_t(t: &mut Tape, st: &mut Stats) -> Verdict {
    case(t, st, 80)
}

pub fn property() -> Property {
    Property {
        id: "C18",
        rule: "histories of 1..30 (thorough ..80) file operations inside a fresh tmpfs scratch directory (absolute paths only): writefile, appendfile, readfile (one write in forty is a text of 8 or 16 KiB with a multi-byte character on the 8192-byte boundary, read back at once), writebinfile+readbinfile (arbitrary bytes through handles; after a refused binary write the same data is written again to another path), touch, mkdir, cp, mv, rm (with/without -r, one or two paths), rmdir, is_path_exists / is_file / is_dir, get_file_size, glob_array root/**/* and <dir>/*.txt (names that differ in letter case only are in the pool), basename, dirname, join_path; path pool of files with extensions and directories without, nested, with spaces and non-ASCII, incl. paths below a file; operations on missing paths and wrong kinds. Oracle: reference tree BTreeMap<path, Dir|File(bytes)>; after EVERY step the command output and the real directory (walked with std::fs, contents read back) are compared with the model; a failing operation must leave the tree unchanged; (bulk) a directory of 1030..1729 files and a chain of 20..45 directories made by one write, built through the commands: listed (root/**/* and many/*.txt), read back, rm without -r refused, rm -r removing exactly the subtree. Non-trivial: >= 1 failing operation and a cp/mv onto an existing file or into a directory; distinct by history",
        assumptions: &[
            "outside the domain (not generated): directory sources for cp/mv, cp/mv with source == target, mv of a file to a missing target without an extension, mv into a directory that already holds an entry of that name, trailing separators, glob metacharacters in names, permissions, symlinks",
            "the output of rm on a missing path and of touch on a directory is not compared (the tree is)",
            "a failing operation only needs to report false or the error result",
        ],
        sections: vec![
            Section {
                name: "histories",
                plan: |t| match t {
                    Tier::Quick => Plan::Random { cases: 60_000, max_len: 300 },
                    Tier::Thorough => Plan::Random { cases: 900_000, max_len: 400 },
                },
                case: case_q,
                min_classes: &[("cp-onto-existing-file", 500), ("mv-onto-existing-file", 300), ("mv-into-directory", 300), ("rm-non-empty-directory-without-r", 300), ("binary-data-written-again-after-a-refused-write", 500), ("text-with-a-multi-byte-character-at-a-multiple-of-8192-bytes", 1000), ("listing-by-a-pattern-with-literal-letters", 1000)],
            },
            Section {
                name: "bulk",
                plan: |t| match t {
                    Tier::Quick => Plan::Random { cases: 48, max_len: 12 },
                    Tier::Thorough => Plan::Random { cases: 1_000, max_len: 12 },
                },
                case: case_bulk,
                min_classes: &[("directory-with-over-1024-files", 40)],
            },
            Section {
                name: "long-histories",
                plan: |t| match t {
                    Tier::Quick => Plan::Skip,
                    Tier::Thorough => Plan::Random { cases: 150_000, max_len: 900 },
                },
                case: case_t,
                min_classes: &[],
            },
        ],
        probes: vec![],
    }
}
