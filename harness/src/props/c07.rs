//! C07 — no script can panic, abort or hang the embedding process.
//! SAFETY: the checker runs as root. Every command that can modify the file system, the process environment,
//! spawn processes, touch the network, block, or read arbitrary files is REMOVED from the context before any
//! generated script runs (see DENY and the `internal::` family); a start-up assertion verifies that nothing of
//! those families is left. Shard processes additionally run with the scratch directory as working directory.

use crate::engine::*;
use crate::gen::*;
use crate::hz::*;
use duckscript::types::runtime::Context;
use serde_json::json;
use std::cell::RefCell;
use std::collections::BTreeSet;

/// removed by alias (Commands::remove resolves the alias and drops the command with all its aliases)
const DENY: &[&str] = &[
    "exec", "spawn", "exit", "watchdog", "sleep", "wget", "http_client", "ftp_get", "ftp_get_in_memory", "ftp_list", "ftp_nlst", "ftp_put", "ftp_put_in_memory", "hostname", "read", "cd", "set_env",
    "unset_env", "test_directory", "test_file", "appendfile", "cp", "glob_cp", "mkdir", "mv", "rm", "rmdir", "chmod", "glob_chmod", "temp_file", "touch", "write_binary_file", "writefile", "zip", "unzip",
    "glob_array", "gitignore_path_array", "ls", "cat", "read_binary_file", "readfile", "digest", "sha256sum", "sha512sum", "read_properties", "canonicalize", "which", "man",
];

/// what may remain of the sensitive families (canonical names)
const ALLOWED_SENSITIVE: &[&str] = &[
    "std::fs::GetFileName", "std::fs::GetParentDirectory", "std::fs::JoinPath", "std::fs::Exists", "std::fs::IsFile", "std::fs::IsDirectory", "std::fs::IsReadonly", "std::fs::IsPathNewer",
    "std::fs::GetFileSize", "std::fs::GetLastModifiedTime", "std::fs::TempDirectory", "std::process::ProcessID",
];

thread_local! {
    static SAFE: RefCell<Option<Context>> = RefCell::new(None);
    static NAMES: RefCell<Option<Vec<String>>> = RefCell::new(None);
}

pub fn safe_context() -> Context {
    SAFE.with(|s| {
        let mut s = s.borrow_mut();
        if s.is_none() {
            let mut c = sdk_context();
            for d in DENY {
                if !c.commands.remove(d) {
                    panic!("harness: command '{}' of the deny list is not registered (renamed?)", d);
                }
            }
            // the internal family (documentation generator) writes files to whatever path it is given
            for n in c.commands.get_all_command_names() {
                if n.starts_with("internal::") {
                    c.commands.remove(&n);
                }
            }
            for n in c.commands.get_all_command_names() {
                let sensitive = n.starts_with("internal::")
                    || n.contains("::fs::")
                    || n.contains("::process::")
                    || n.contains("::net::")
                    || n.contains("::thread::")
                    || n.contains("::env::SetVar")
                    || n.contains("::env::SetCurrentDirectory")
                    || n.contains("::env::UnsetVar")
                    || n.contains("::test::Test");
                if sensitive && !ALLOWED_SENSITIVE.contains(&n.as_str()) {
                    panic!("harness: sensitive command '{}' is still registered; refusing to run generated scripts", n);
                }
            }
            *s = Some(c);
        }
        s.as_ref().unwrap().clone()
    })
}

/// true if `name` (alias or canonical) resolves to the same command as one of `aliases` in the live registry
fn resolves_to_any(c: &Context, name: &str, aliases: &[&str]) -> bool {
    match c.commands.get(name) {
        Some(cmd) => {
            let canon = cmd.name();
            aliases.iter().any(|a| c.commands.get(a).map(|x| x.name() == canon).unwrap_or(false))
        }
        None => false,
    }
}

/// loop / definition constructs: never the command of a generated line (user-written loops and recursion are outside the domain)
const LOOPISH: &[&str] = &["while", "goto", "alias", "fn", "for"];
/// commands whose work is proportional to a numeric argument
const PROPORTIONAL_ALIASES: &[&str] = &["range", "random_text", "random_range"];

thread_local! {
    /// (names resolving to a resource-proportional command, names resolving to eval), computed once per thread
    static FAMILIES: RefCell<Option<(std::collections::HashSet<String>, std::collections::HashSet<String>)>> = RefCell::new(None);
}

fn families<T>(f: impl FnOnce(&(std::collections::HashSet<String>, std::collections::HashSet<String>)) -> T) -> T {
    FAMILIES.with(|fam| {
        let mut fam = fam.borrow_mut();
        if fam.is_none() {
            let c = safe_context();
            let mut all: Vec<String> = c.commands.aliases.keys().cloned().collect();
            all.extend(c.commands.get_all_command_names());
            let prop = all.iter().filter(|n| resolves_to_any(&c, n, PROPORTIONAL_ALIASES)).cloned().collect();
            let eval = all.iter().filter(|n| resolves_to_any(&c, n, &["eval"])).cloned().collect();
            *fam = Some((prop, eval));
        }
        f(fam.as_ref().unwrap())
    })
}

fn is_proportional(name: &str) -> bool {
    families(|(p, _)| p.contains(name))
}

fn is_eval(name: &str) -> bool {
    families(|(_, e)| e.contains(name))
}

/// every invocable name (aliases and canonical names) of the safe context
fn all_names() -> Vec<String> {
    NAMES.with(|n| {
        let mut n = n.borrow_mut();
        if n.is_none() {
            let c = safe_context();
            let mut v: BTreeSet<String> = c.commands.aliases.keys().cloned().collect();
            for name in c.commands.get_all_command_names() {
                v.insert(name);
            }
            // harness commands are not under test; loop constructs are never the command of a generated line
            let v: Vec<String> = v
                .into_iter()
                .filter(|x| !x.starts_with("hz::") && !["emit", "cap", "cap2", "hz_capture", "put", "tick", "tock"].contains(&x.as_str()) && !resolves_to_any(&c, x, LOOPISH))
                .collect();
            *n = Some(v);
        }
        n.clone().unwrap()
    })
}

#[derive(Clone, Debug, PartialEq)]
enum Kind {
    Handle,
    Number,
    Text,
    Name,
    Path,
    Flag(String),
    Any,
}

/// signature from the usage line of the command's help text
fn signature_of(help: &str, alias: &str) -> Vec<(Kind, bool)> {
    let block = help.split("```sh").nth(1).and_then(|b| b.split("```").next()).unwrap_or("");
    let line = block.lines().map(|l| l.trim()).find(|l| l.split(' ').any(|w| w == alias)).unwrap_or("");
    let after: Vec<&str> = line.split(' ').skip_while(|w| *w != alias).skip(1).collect();
    let mut out = vec![];
    for tok in after {
        let optional = tok.starts_with('[') || tok.ends_with("]*") || tok.ends_with("]+") || tok.ends_with(']');
        let t = tok.trim_matches(|c| c == '[' || c == ']' || c == '*' || c == '+' || c == '(' || c == ')' || c == '.' || c == '|');
        if t.is_empty() {
            continue;
        }
        let l = t.to_lowercase();
        let kind = if t.starts_with('-') {
            Kind::Flag(t.split('|').next().unwrap_or(t).to_string())
        } else if l.contains("handle") {
            Kind::Handle
        } else if ["index", "start", "end", "count", "length", "num", "number", "min", "max", "size", "millies", "code", "left", "right", "mode"].iter().any(|k| l.contains(k)) {
            Kind::Number
        } else if ["name", "var", "key", "names"].iter().any(|k| l == *k || l.starts_with(*k)) {
            Kind::Name
        } else if ["path", "file", "dir", "source", "target", "newer", "older"].iter().any(|k| l.contains(k)) {
            Kind::Path
        } else if ["text", "value", "str", "input", "message", "arg", "pattern", "separator", "prefix", "suffix", "json", "all", "partial", "from", "to", "command", "arguments", "operation"].iter().any(|k| l.contains(k)) {
            Kind::Text
        } else {
            Kind::Any
        };
        out.push((kind, optional));
    }
    out
}

const NUMBERS: &[&str] = &["0", "1", "2", "-1", "5", "10", "255", "1.5", "1e3", "x", "", "٣", "9223372036854775807", "-9223372036854775808", "18446744073709551616", "007", "+3", " 4", "0x10", "NaN", "inf"];
const SMALL_NUMBERS: &[&str] = &["0", "1", "2", "-1", "5", "10", "255", "1.5", "x", "", "100", "-5"];
const TEXTS: &[&str] = &[
    "", "a", "abc", "hello world", "héllo", "日本語", "😀", "a😀b", "e\u{301}", " ", "  x  ", "a,b,c", "1.2.3", "1.2.3-beta+build", "{\"a\": [1, 2, {\"b\": null}]}", "[1,2", "{}", "null", "\"s\"", "true", "false",
    "k=v\nk2=v2", "a=b", "=", "#", "a#b", "\"", "\"q\"", "\\", "a\\", "%", "50% off", "$", "${ha}", "%{v1}", "-r", "--prefix", "--collection", "-e", "-d", "--copy", "and", "or", "(", ")", "not", "in", "\t", "a\nb", "\r\n",
    "\0", "\u{feff}x", "ß", "İ", "ǅ", "0xff", "ff", "aGVsbG8=", "////", "====", "bold", "red", "std::Echo", "echo", "set", "end", "handle:nosuchhandle000000000", "scope::x", "x.length", "a[0]",
];
/// relative, non-existing paths only: nothing the remaining commands do can create them, and they stay below the scratch cwd
const PATHS: &[&str] = &["nofile.txt", "./no/such/dir", "", ".", "a/b/../c", "x y.txt", "é/日", "no-such-dir/"];
const NAMESV: &[&str] = &["v1", "v2", "v3", "undefined_var", "ha", "hm", "o1", "o2", "", "a b", "scope::x", "1"];
const HANDLE_VARS: &[&str] = &["ha", "hm", "hs", "hb", "hr", "he"];

/// A value shaped like a common fixed-width format (colour, time, date, version, uuid ...) in which 2..4 bytes are
/// replaced by ONE character of that many bytes: same byte length, but a character across any byte offset a parser of
/// the format might cut at.
fn format_lookalike(t: &mut Tape) -> String {
    let template = *t.pick_ref(&["#123456", "#fff", "12:34:56", "2024-01-02", "1.2.3", "10.0.0.1", "0x1F2E", "a@b.co", "rgb(1,2,3)", "ff00ff", "1,234.5", "01/02/2024", "550e8400-e29b-41d4-a716-446655440000", "http://h/p?q=1", "rgb_1_2_3", "bright_red", "-12.50", "1e-3"]);
    let w = 2 + t.below(3);
    if template.len() < w {
        return template.to_string();
    }
    let p = t.below(template.len() - w + 1);
    let ch = ["é", "日", "😀"][w - 2];
    format!("{}{}{}", &template[..p], ch, &template[p + w..])
}

fn arg_for(t: &mut Tape, k: &Kind, outs: usize, bounded: bool) -> String {
    if bounded {
        // resource-proportional command: literal small numbers only, never a value computed by an earlier line
        t.raw();
        return t.pick(SMALL_NUMBERS).to_string();
    }
    let kind = if t.chance(1, 8) { Kind::Any } else { k.clone() };
    match kind {
        Kind::Flag(f) => f,
        Kind::Handle => match t.weighted(&[6, 1, 1]) {
            0 => format!("${{{}}}", t.pick(HANDLE_VARS)),
            1 => "handle:nosuchhandle000000000".to_string(),
            _ => t.pick(TEXTS).to_string(),
        },
        Kind::Number => t.pick(NUMBERS).to_string(),
        Kind::Text => {
            if t.chance(1, 10) {
                format_lookalike(t)
            } else if t.chance(1, 6) {
                let mut s = hazard_string(t, 3);
                s.retain(|c| c != '\n' && c != '\r');
                s
            } else {
                t.pick(TEXTS).to_string()
            }
        }
        Kind::Name => t.pick(NAMESV).to_string(),
        Kind::Path => t.pick(PATHS).to_string(),
        Kind::Any => match t.below(6) {
            0 if outs > 0 => format!("${{o{}}}", 1 + t.below(outs)),
            1 => format!("${{{}}}", t.pick(HANDLE_VARS)),
            2 => t.pick(NUMBERS).to_string(),
            3 => t.pick(NAMESV).to_string(),
            4 => t.pick(PATHS).to_string(),
            _ => {
                if t.chance(1, 8) {
                    format_lookalike(t)
                } else {
                    t.pick(TEXTS).to_string()
                }
            }
        },
    }
}

fn render_value(v: &str) -> String {
    // variable references are written raw; everything else goes through the documented-syntax renderer
    if v.starts_with("${") && v.ends_with('}') && !v.contains(' ') {
        v.to_string()
    } else {
        render_arg(v, false, false, false).0
    }
}

const PREAMBLE: &str = "ha = array a \"b c\" \"\" é\nhe = array\nhm = map\nx = map_put ${hm} k v\nx = map_put ${hm} \"k 2\" \"${ha}\"\nhs = set_new x y\nhb = string_to_bytes héllo\nhr = array gone\nx = release ${hr}\nv1 = set \"text value\"\nv2 = set 42\nv3 = set \"\"\n";

/// block openers and closers: never generated INSIDE a function or loop body, where an unbalanced one would move
/// the end of the enclosing block (a function whose extent grows over a call to itself is user-written recursion)
fn is_block_word(c: &str) -> bool {
    use crate::flow::Spell;
    Spell::IF.contains(&c) || Spell::ENDIF.contains(&c) || Spell::ENDWHILE.contains(&c) || Spell::ENDFOR.contains(&c) || Spell::ENDFN.contains(&c)
}

fn gen_line(t: &mut Tape, names: &[String], outs: &mut usize, st: &mut Stats, user: &[String], in_body: bool) -> String {
    let mut cmd = if !user.is_empty() && t.chance(1, 10) { t.pick_ref(user).clone() } else { t.pick_ref(names).clone() };
    if in_body && is_block_word(&cmd) {
        cmd = "noop".to_string();
    }
    let sig = SAFE.with(|s| match s.borrow().as_ref().and_then(|c| c.commands.get(&cmd)) {
        Some(c) => signature_of(&c.help(), &cmd),
        None => vec![],
    });
    let typed = !sig.is_empty() && t.chance(3, 4);
    let mut args: Vec<String> = vec![];
    let bounded = is_proportional(&cmd);
    if bounded {
        st.class("resource-proportional-command-bounded");
    }
    if typed {
        st.class("typed-argument-list");
        for (k, optional) in &sig {
            if *optional && t.flip() {
                continue;
            }
            args.push(arg_for(t, k, *outs, bounded));
            if *optional && t.chance(1, 3) {
                args.push(arg_for(t, k, *outs, bounded));
            }
        }
        // too few / too many now and then
        if t.chance(1, 8) && !args.is_empty() {
            args.pop();
        }
        if t.chance(1, 8) {
            args.push(arg_for(t, &Kind::Any, *outs, bounded));
        }
    } else {
        st.class("untyped-argument-list");
        let n = t.len(4);
        for _ in 0..n {
            args.push(arg_for(t, &Kind::Any, *outs, bounded));
        }
    }
    let mut line = String::new();
    if t.chance(3, 4) {
        *outs += 1;
        line.push_str(&format!("o{} = ", outs));
    }
    line.push_str(&cmd);
    for a in &args {
        line.push(' ');
        line.push_str(&render_value(a));
    }
    line
}

fn panic_signature(loc: &str) -> String {
    format!("C07/panic@{}", short_loc(loc))
}

fn case_commands_with(t: &mut Tape, st: &mut Stats, max_lines: usize) -> Verdict {
    let names = all_names();
    let mut script = String::from(PREAMBLE);
    let mut outs = 0usize;
    let mut user: Vec<String> = vec![];
    let n = 1 + t.len(max_lines - 1);
    // top-level boundaries at which the script can be cut into two runs on one context
    let mut cuts: Vec<usize> = vec![];
    // (function name, 0-based line of its `fn` line)
    let mut fn_lines: Vec<(String, usize)> = vec![];
    for _ in 0..n {
        cuts.push(script.len());
        match t.weighted(&[30, 1, 1, 1, 1, 1]) {
            5 => {
                // collections that (transitively) contain their own handle, and recursive operations on them
                match t.below(3) {
                    0 => script.push_str("x = array_push ${ha} ${ha}\n"),
                    1 => script.push_str("x = map_put ${hm} self ${hm}\n"),
                    _ => script.push_str("x = array_push ${he} ${hm}\nx = map_put ${hm} back ${he}\n"),
                }
                st.class("self-containing-collection");
                if t.chance(1, 2) {
                    let h = *t.pick_ref(&["ha", "hm", "he"]);
                    match t.below(3) {
                        0 => script.push_str(&format!("x = release {} ${{{}}}\n", t.pick(&["-r", "--recursive"]), h)),
                        1 => script.push_str(&format!("x = json_encode --collection ${{{}}}\n", h)),
                        _ => script.push_str(&format!("x = release ${{{}}}\n", h)),
                    }
                    st.class("recursive-operation-on-cyclic-structure");
                }
            }
            0 => {
                let l = gen_line(t, &names, &mut outs, st, &user, false);
                script.push_str(&l);
                script.push('\n');
            }
            1 => {
                script.push_str(&format!("exit_on_error {}\n", if t.flip() { "true" } else { "false" }));
                st.class("exit_on_error-toggle");
            }
            2 => {
                // a finite for loop: it iterates over an array of its own that no generated line can name,
                // so the body cannot grow it (a body pushing to the iterated array is a user-written endless loop)
                script.push_str("hloop = array 1 2 3 4\nfor item in ${hloop}\n");
                // the body may make the iterated array SHORTER (or drop it): the loop then just ends earlier
                let shrink_at = if t.chance(1, 3) { Some(t.below(3)) } else { None };
                let body = 1 + t.below(2);
                for i in 0..body {
                    if shrink_at == Some(i) {
                        script.push_str(*t.pick_ref(&["    x = array_pop ${hloop}\n", "    x = array_remove ${hloop} 0\n", "    x = array_clear ${hloop}\n", "    x = release ${hloop}\n", "    hloop = array\n", "    hloop = array z\n"]));
                        st.class("loop-body-shrinks-the-iterated-array");
                    }
                    let l = gen_line(t, &names, &mut outs, st, &[], true);
                    script.push_str("    ");
                    script.push_str(&l);
                    script.push('\n');
                }
                if let Some(i) = shrink_at {
                    if i >= body {
                        script.push_str("    x = array_pop ${hloop}\n");
                        st.class("loop-body-shrinks-the-iterated-array");
                    }
                }
                script.push_str("end\n");
                st.class("finite-for-loop");
            }
            3 => {
                // an alias of an SDK command with plain stored arguments (never another alias, never eval: no user-written recursion)
                let target = t.pick_ref(&names).clone();
                if is_eval(&target) || is_proportional(&target) {
                    continue;
                }
                let name = format!("myal{}", user.len());
                script.push_str(&format!("alias {} {} {}\n", name, target, t.pick(&["", "a", "1", "${ha}", "\"x y\""])));
                user.push(name);
                st.class("user-alias");
            }
            _ => {
                // a function whose body only calls SDK commands
                let name = format!("myfn{}", user.len());
                fn_lines.push((name.clone(), script.matches('\n').count()));
                script.push_str(&format!("fn {}\n", name));
                for _ in 0..1 + t.below(2) {
                    let l = gen_line(t, &names, &mut outs, st, &[], true);
                    script.push_str("    ");
                    script.push_str(&l);
                    script.push('\n');
                }
                script.push_str("end\n");
                user.push(name);
                st.class("user-function");
            }
        }
    }
    if std::env::var("DSVERIF_PRINT_SCRIPT").is_ok() {
        eprintln!("----- script -----\n{}-----", script);
    }
    hz_reset();
    // one case in five: the script is run in two parts, the second on the context the first returned (functions,
    // aliases, handles and state of the first run are still there; its line numbers are not)
    let cut = if t.chance(1, 5) && cuts.len() > 1 { Some(cuts[1 + t.below(cuts.len() - 1)]) } else { None };
    if std::env::var("DSVERIF_PRINT_SCRIPT").is_ok() {
        eprintln!("second run starts at byte {:?}: {:?}", cut, cut.map(|c| script[c..].lines().next().unwrap_or("").to_string()));
    }
    let second_run_cut = std::cell::Cell::new(false);
    let r = guarded(|| match cut {
        None => run_text(&script, safe_context(), 200_000, None),
        Some(at) => {
            // a function of the first part keeps the line numbers of the first script. Called from the second part it
            // is a jump to that line of the SECOND script: past its end when the definition sat far enough down (the
            // run just ends), otherwise into unrelated lines, which may well be a loop nobody wrote. Calls of the
            // second kind are taken out.
            let n2 = script[at..].lines().count();
            let risky: Vec<&str> = fn_lines.iter().filter(|(_, l)| script[..at].matches('\n').count() > *l && l + 1 < n2).map(|(n, _)| n.as_str()).collect();
            let second: String = script[at..]
                .lines()
                .map(|l| {
                    if risky.iter().any(|r| l.split(' ').any(|w| w == *r)) {
                        "noop".to_string()
                    } else {
                        l.to_string()
                    }
                })
                .collect::<Vec<_>>()
                .join("\n");
            let first = run_text(&script[..at], safe_context(), 200_000, None);
            if first.fuel_exhausted || first.depth_exceeded {
                return first;
            }
            match first.result {
                // a function defined in the first part keeps the line numbers of the first script: calling it from the
                // second part is a jump to an unrelated line, i.e. possibly a loop the generator did not write. The
                // second run therefore gets little fuel, and running out of it is not a verdict.
                Ok(ctx) => {
                    let mut second = run_text(&second, ctx, 2_000, None);
                    if second.fuel_exhausted || second.depth_exceeded {
                        second.fuel_exhausted = false;
                        second.depth_exceeded = false;
                        second_run_cut.set(true);
                    }
                    second
                }
                Err(_) => first,
            }
        }
    });
    if cut.is_some() {
        st.class("script-run-in-two-parts-on-one-context");
    }
    if second_run_cut.get() {
        st.class("second-run-cut-after-2000-instructions");
    }

    match r {
        Err((msg, loc)) => fail(&panic_signature(&loc), json!({"script": script, "second_run_starts_at_byte": cut, "panic": msg, "location": loc})),
        Ok(out) => {
            if out.fuel_exhausted || out.depth_exceeded {
                // no user-written loop: a command that is not a loop construct did not finish
                return fail("C07/does-not-finish", json!({"script": script, "second_run_starts_at_byte": cut, "fuel_used": out.fuel_used, "nesting_limit_hit": out.depth_exceeded}));
            }
            st.class(if out.result.is_ok() { "run-ok" } else { "run-err" });
            if st.want_sample() {
                let s = script.clone();
                st.sample(|| json!({"script": s}));
            }
            Verdict::Pass(Some(fp(&script)))
        }
    }
}

fn case_commands(t: &mut Tape, st: &mut Stats) -> Verdict {
    case_commands_with(t, st, 25)
}
fn case_commands_large(t: &mut Tape, st: &mut Stats) -> Verdict {
    case_commands_with(t, st, 80)
}

/// (env-names) the commands that read and change the process environment, with hazard names and values. Names that
/// the platform accepts are given a prefix so that no real variable is touched; what was set is removed again.
fn case_env(t: &mut Tape, st: &mut Stats) -> Verdict {
    let n = 1 + t.len(7);
    let mut side: Vec<String> = vec![];
    let mut script = String::from("hm = map\n");
    let mut touched: Vec<String> = vec![];
    let mut name = |t: &mut Tape, st: &mut Stats, touched: &mut Vec<String>| -> String {
        let raw = match t.below(4) {
            0 => t.pick(&["", "=", "a=b", "=x", "x=", "\0", "a\0b", " ", "é", "A B"]).to_string(),
            _ => hazard_string(t, 3),
        };
        let valid = !raw.is_empty() && !raw.contains('=') && !raw.contains('\0');
        if valid {
            let nm = format!("DSVERIF_ENV_{}", raw);
            touched.push(nm.clone());
            nm
        } else {
            st.class("environment-variable-name-the-platform-refuses");
            raw
        }
    };
    for i in 0..n {
        let nm = name(t, st, &mut touched);
        let ni = side.len();
        side.push(nm);
        script.push_str(&format!("n{} = put {}\n", i, ni));
        match t.below(6) {
            0 | 1 => {
                let mut v = hazard_string(t, 3);
                if t.chance(1, 6) {
                    v.push('\0');
                    v.push_str(&hazard_string(t, 1));
                }
                if v.contains('\0') {
                    st.class("environment-variable-value-with-nul");
                }
                let vi = side.len();
                side.push(v);
                script.push_str(&format!("v{} = put {}\no{} = set_env ${{n{}}} ${{v{}}}\n", i, vi, i, i, i));
            }
            2 => script.push_str(&format!("o{} = get_env ${{n{}}}\n", i, i)),
            3 => script.push_str(&format!("o{} = unset_env ${{n{}}}\n", i, i)),
            4 => {
                let v = hazard_string(t, 2);
                let vi = side.len();
                side.push(v);
                script.push_str(&format!("v{} = put {}\nx = map_put ${{hm}} ${{n{}}} ${{v{}}}\no{} = set_env --handle ${{hm}}\n", i, vi, i, i, i));
            }
            _ => script.push_str(&format!("o{} = env_to_map\nx = release ${{o{}}}\n", i, i)),
        }
    }
    hz_reset();
    with_hz(|h| h.side = side.clone());
    let r = guarded(|| run_text(&script, sdk_context(), 50_000, None));
    for nm in &touched {
        std::env::remove_var(nm);
    }
    match r {
        Err((msg, loc)) => fail(&panic_signature(&loc), json!({"script": script, "values": side, "panic": msg, "location": loc})),
        Ok(out) => {
            if out.fuel_exhausted || out.depth_exceeded {
                return fail("C07/does-not-finish", json!({"script": script, "values": side}));
            }
            Verdict::Pass(Some(fp(&(&script, &side))))
        }
    }
}

const SOUP: &[&str] = &[" ", " ", " ", "\n", "\n", "=", " = ", "\"", "\\", "#", ":", "!", "${ha}", "${", "%{hm}", "%", "$", "(", ")", "and", "or", "not", "true", "false", "0", "-r", "--copy", "\t", "é", "😀", "\0", "\u{feff}", "\u{feff}", "\u{85}", "\u{2028}"];

fn case_text(t: &mut Tape, st: &mut Stats) -> Verdict {
    let names = all_names();
    // resource-proportional commands are not spelled in the soup (their arguments could not be bounded there)
    let soup_names: Vec<&String> = names.iter().filter(|n| !is_proportional(n)).collect();
    let mut script = if t.flip() { String::from(PREAMBLE) } else { String::new() };
    let n = t.len(60);
    for _ in 0..n {
        match t.weighted(&[4, 5, 2, 1]) {
            0 => {
                let name: &String = soup_names[t.below(soup_names.len())];
                script.push_str(name)
            }
            1 => script.push_str(t.pick(SOUP)),
            2 => script.push_str(t.pick(TEXTS)),
            _ => script.push(any_char(t)),
        }
        if t.chance(1, 2) {
            script.push(' ');
        }
    }
    hz_reset();
    let r = guarded(|| run_text(&script, safe_context(), 60_000, None));
    match r {
        Err((msg, loc)) => fail(&panic_signature(&loc), json!({"script": script, "panic": msg, "location": loc})),
        Ok(out) => {
            if out.fuel_exhausted || out.depth_exceeded {
                // arbitrary text may legitimately spell a loop: counted only
                st.class("text-ran-out-of-fuel");
            }
            st.class(if out.result.is_ok() { "run-ok" } else { "run-err" });
            Verdict::Pass(if script.lines().count() >= 2 { Some(fp(&script)) } else { None })
        }
    }
}

/// (c) include cycles, observed through a child process
/// how file `next` of the cycle is named in the directive: relative, absolute, through `..`, and absolute in
/// spellings that are not the canonical one (`/./`, `//`, `/sub/../`)
pub fn cycle_target(dir: &str, next: usize, style: usize) -> String {
    match style % 6 {
        0 => format!("./f{}.ds", next),
        1 => format!("{}/f{}.ds", dir, next),
        2 => format!("../{}/f{}.ds", std::path::Path::new(dir).file_name().unwrap().to_string_lossy(), next),
        3 => format!("{}/./f{}.ds", dir, next),
        4 => format!("{}//f{}.ds", dir, next),
        _ => format!("{}/sub/../f{}.ds", dir, next),
    }
}

pub fn probe_include_cycle(dir: &str, len: usize, self_path_style: usize) -> i32 {
    let _ = std::fs::create_dir_all(format!("{}/sub", dir));
    for i in 0..len {
        let next = (i + 1) % len;
        let target = cycle_target(dir, next, self_path_style);
        std::fs::write(format!("{}/f{}.ds", dir, i), format!("echo file {}\n!include_files {}\necho after\n", i, target)).expect("write");
    }
    match duckscript::parser::parse_file(&format!("{}/f0.ds", dir)) {
        Ok(v) => println!("parsed {} instructions", v.len()),
        Err(e) => println!("error: {:?}", e),
    }
    0
}

fn case_cycle(t: &mut Tape, st: &mut Stats) -> Verdict {
    case_cycle_for("C07", t, st)
}

pub fn case_cycle_for(prefix: &str, t: &mut Tape, st: &mut Stats) -> Verdict {
    let len = 1 + t.below(4);
    let style = t.below(6);
    if style >= 3 {
        st.class("cycle-through-a-non-canonical-absolute-path");
    }
    let dir = format!("{}/c07cyc-{:?}", scratch_root(), std::thread::current().id()).replace(['(', ')'], "");
    let _ = std::fs::remove_dir_all(&dir);
    let exe = std::env::current_exe().expect("exe");
    let out = std::process::Command::new(exe).args(["probe-cycle", &dir, &len.to_string(), &style.to_string()]).output();
    let _ = std::fs::remove_dir_all(&dir);
    st.class(&format!("cycle-length-{}", len));
    match out {
        Err(e) => Verdict::Fail(Fail { signature: "harness/spawn".into(), detail: json!(e.to_string()) }),
        Ok(o) => {
            use std::os::unix::process::ExitStatusExt;
            if let Some(sig) = o.status.signal() {
                let stderr = String::from_utf8_lossy(&o.stderr).to_string();
                let what = if stderr.contains("overflowed its stack") { "stack-overflow" } else { "signal" };
                return fail(&format!("{}/include-cycle/{}", prefix, what), json!({"cycle_length": len, "path_style": style, "signal": sig, "stderr": stderr.lines().take(4).collect::<Vec<_>>()}));
            }
            if o.status.code() != Some(0) {
                return fail(&format!("{}/include-cycle/abnormal-exit", prefix), json!({"cycle_length": len, "status": o.status.code(), "stderr": String::from_utf8_lossy(&o.stderr).lines().take(4).collect::<Vec<_>>()}));
            }
            Verdict::Pass(Some(fp(&(len, style))))
        }
    }
}

/// Known finding: the condition evaluator and `release -r` recurse once per nesting level on the native stack, so a
/// condition with some hundred thousand nested groups, or a chain of as many nested collections, overflows the stack
/// of an ordinary thread and the process is aborted. Run in child processes on their main thread.
fn probe_deep_nesting() -> Option<String> {
    use std::os::unix::process::ExitStatusExt;
    let exe = std::env::current_exe().ok()?;
    let mut found = vec![];
    for (kind, what) in [(0, "a condition of 70000 nested groups"), (1, "release -r on a chain of 30000 nested arrays")] {
        if let Ok(o) = std::process::Command::new(&exe).args(["probe-deep", &kind.to_string()]).output() {
            if let Some(sig) = o.status.signal() {
                found.push(format!("{}: the process was killed by signal {}", what, sig));
            }
        }
    }
    if found.is_empty() {
        None
    } else {
        Some(found.join("; "))
    }
}

pub fn property() -> Property {
    Property {
        id: "C07",
        rule: "(commands) 1..25 (thorough ..80) lines after a preamble that creates an array, maps, a set, a byte array, a released handle and variables; each line invokes ANY registered name of the SDK (all aliases and canonical names, minus the removed families) with an argument list drawn from a TYPED pool derived from the usage line of its help text (handles of the right/wrong kind, released, unknown; numbers incl. negative, huge, decimal, non-numeric, non-ASCII digits; multi-byte and syntax-bearing text; look-alikes of fixed-width formats (#rrggbb, hh:mm:ss, dates, versions, uuid ...) with one multi-byte character in place of 2..4 bytes; variable names; relative non-existing paths; documented flags) or from an UNTYPED pool (any value anywhere), with outputs chained into later arguments, exit_on_error toggles, finite for loops (whose body may shorten, clear, release or re-point the iterated array), user aliases of SDK commands and user functions with SDK-only bodies; one case in five is run in two parts, the second part on the context returned by the first; (env-names) set_env (also --handle) / get_env / unset_env / env_to_map with hazard names (empty, with '=' or NUL) and values (with NUL), accepted names prefixed so that no real variable is touched; (text) token soup of real command names, syntax characters and hazard strings; (include-cycle) files forming an include cycle of length 1..4 with relative / absolute / .. paths and absolute paths in non-canonical spellings (/./, //, /sub/../), parsed in a child process. Oracle: the run returns Ok or Err - a panic (caught, with location) is a violation; every shard runs in a child process, so an abort or stack overflow is attributed to the case that was running; fuel or nesting-limit exhaustion in (commands) is the 'does not finish' verdict because no generated line is a loop construct, alias of an alias, or recursive function; in (text) it is only counted. Non-trivial: every (commands) case; distinct by script text",
        assumptions: &[
            "removed from the context before anything runs (stated exclusions + safety of the root-run checker): exec, spawn, exit/quit/q, watchdog, sleep, read, network commands, hostname, cd, set_env/unset_env, test_directory/test_file, every command that creates, modifies, deletes, lists or reads files (writefile, appendfile, cp, mv, rm, mkdir, touch, chmod, zip, glob_array, ls, cat, readfile, digest ...), which, man, and the internal:: family (its documentation generator writes a file to any path it is given)",
            "resource-proportional requests are bounded: range / random_text / random_range only receive literal numbers of magnitude <= 255, never a value computed by an earlier line, and are not spelled in the text soup",
            "user-written unbounded loops (while, goto, alias of an alias or of eval, recursive functions) are never generated in (commands)",
        ],
        sections: vec![
            Section {
                name: "commands",
                plan: |t| match t {
                    Tier::Quick => Plan::Random { cases: 400_000, max_len: 400 },
                    Tier::Thorough => Plan::Random { cases: 6_000_000, max_len: 500 },
                },
                case: case_commands,
                min_classes: &[("typed-argument-list", 500_000), ("untyped-argument-list", 200_000), ("user-alias", 5000), ("user-function", 5000), ("finite-for-loop", 5000), ("loop-body-shrinks-the-iterated-array", 1500), ("script-run-in-two-parts-on-one-context", 20000), ("recursive-operation-on-cyclic-structure", 2000)],
            },
            Section {
                name: "commands-large",
                plan: |t| match t {
                    Tier::Quick => Plan::Skip,
                    Tier::Thorough => Plan::Random { cases: 600_000, max_len: 1500 },
                },
                case: case_commands_large,
                min_classes: &[],
            },
            Section {
                name: "env-names",
                plan: |t| match t {
                    Tier::Quick => Plan::Random { cases: 20_000, max_len: 80 },
                    Tier::Thorough => Plan::Random { cases: 400_000, max_len: 80 },
                },
                case: case_env,
                min_classes: &[("environment-variable-name-the-platform-refuses", 3000), ("environment-variable-value-with-nul", 300)],
            },
            Section {
                name: "text",
                plan: |t| match t {
                    Tier::Quick => Plan::Random { cases: 150_000, max_len: 200 },
                    Tier::Thorough => Plan::Random { cases: 3_000_000, max_len: 300 },
                },
                case: case_text,
                min_classes: &[],
            },
            Section {
                name: "include-cycle",
                plan: |t| match t {
                    Tier::Quick => Plan::Random { cases: 96, max_len: 4 },
                    Tier::Thorough => Plan::Random { cases: 1_200, max_len: 4 },
                },
                case: case_cycle,
                min_classes: &[("cycle-through-a-non-canonical-absolute-path", 20)],
            },
        ],
        probes: vec![Probe { signature: "C07/stack-overflow-on-very-deep-nesting", run: probe_deep_nesting }],
    }
}
