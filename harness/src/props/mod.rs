pub mod c01;

use crate::engine::Property;

pub fn all() -> Vec<Property> {
    vec![c01::property()]
}
