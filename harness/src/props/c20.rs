//! C20 — the command-line tool reports what the library decided.
//! The `duck` binary is built from /repo by check.sh into harness/target/cli (hooks off: it is the real tool).
//! Generated scripts only use echo / set / calc / flow control / array / assert / exit / trigger_error: nothing
//! that touches files, processes or the network.

use crate::engine::*;
use crate::hz::*;
use crate::props::c08::malformed_line;
use serde_json::json;
use std::process::Command;

fn duck() -> String {
    std::env::var("DSVERIF_DUCK").unwrap_or_else(|_| format!("{}/harness/target/cli/debug/duck", verif_dir()))
}

fn ensure_duck() {
    if !std::path::Path::new(&duck()).exists() {
        panic!("harness: duck binary not found at {} (check.sh builds it before this check runs)", duck());
    }
}

const WORDS: &[&str] = &["hello", "world", "a b", "é", "日本", "x=y", "1", "0", "true", "#not-a-comment", "tab\there", "", "q\"uote", "back\\slash", "50%", "$", "(", "and"];

fn word(t: &mut Tape) -> String {
    crate::gen::render_arg(t.pick(WORDS), false, false, false).0
}

#[derive(Clone, Copy, Debug, PartialEq)]
enum Ending {
    Success,
    UnknownCommand,
    AssertFails,
    ExitNonZero,
    ExitZero,
    ExitText,
    ParseError,
    FatalError,
}

/// deterministic, side-effect free script lines
fn body(t: &mut Tape, n: usize, st: &mut Stats) -> Vec<String> {
    let mut v = vec![];
    for i in 0..n {
        if t.chance(1, 110) {
            // a lot of output: some 70..300 KiB, far beyond any pipe or stdio buffer
            let lines = 1500 + t.below(4000);
            v.push(format!("big{} = range 0 {}", i, lines));
            v.push(format!("for bi in ${{big{}}}", i));
            v.push("    echo output line ${bi} with some padding to make it longer than a few bytes".to_string());
            v.push("end".to_string());
            v.push(format!("released = release ${{big{}}}", i));
            st.class("script-printing-over-64-KiB");
            continue;
        }
        match t.weighted(&[6, 2, 2, 2, 1, 1, 1, 1]) {
            0 => {
                let k = 1 + t.below(3);
                let ws: Vec<String> = (0..k).map(|_| word(t)).collect();
                v.push(format!("echo {}", ws.join(" ")));
            }
            1 => {
                v.push(format!("v{} = set {}", i % 3, word(t)));
                v.push(format!("echo value ${{v{}}}", i % 3));
            }
            2 => {
                v.push(format!("r = calc {} {} {}", t.below(50), t.pick(&["+", "-", "*"]), t.below(50)));
                v.push("echo result ${r}".to_string());
            }
            3 => {
                let c = *t.pick_ref(&["true", "false", "${v0}", "true and false", "( false ) or true"]);
                v.push(format!("if {}", c));
                v.push(format!("    echo branch taken {}", i));
                v.push("else".to_string());
                v.push(format!("    echo other branch {}", i));
                v.push("end".to_string());
                st.class("script-with-if-block");
            }
            4 => {
                v.push("arr = array a b c".to_string());
                v.push("for item in ${arr}".to_string());
                v.push("    echo item ${item}".to_string());
                v.push("end".to_string());
                v.push("released = release ${arr}".to_string());
                st.class("script-with-loop");
            }
            5 => {
                v.push(format!("fn say{}", i));
                v.push("    echo in function ${1}".to_string());
                v.push("    return done".to_string());
                v.push("end".to_string());
                v.push(format!("fr = say{} {}", i, word(t)));
                v.push("echo ${fr}".to_string());
                st.class("script-with-function");
            }
            6 => {
                // a survivable error: reported through the output variable, the script goes on
                v.push(format!("e{} = trigger_error \"not fatal\"", i));
                v.push(format!("echo after error ${{e{}}}", i));
                st.class("script-with-survivable-error");
            }
            _ => {
                v.push(format!("goto :skip{}", i));
                v.push("echo never printed".to_string());
                v.push(format!(":skip{} echo landed", i));
            }
        }
    }
    v
}

fn gen_script(t: &mut Tape, st: &mut Stats) -> (String, Ending) {
    let ending = *t.pick_ref(&[Ending::Success, Ending::Success, Ending::UnknownCommand, Ending::AssertFails, Ending::ExitNonZero, Ending::ExitZero, Ending::ExitText, Ending::ParseError, Ending::FatalError]);
    let n = t.len(6);
    let mut lines = body(t, n, st);
    let tail_n = t.len(2);
    let tail = body(t, tail_n, st);
    match ending {
        Ending::Success => {}
        Ending::UnknownCommand => lines.push(format!("nosuchcommand{} arg", t.below(10))),
        Ending::AssertFails => lines.push(format!("assert {} \"planted assertion\"", t.pick(&["false", "0", "no"]))),
        Ending::ExitNonZero => {
            // incl. codes whose low 8 bits are zero
            let code = *t.pick_ref(&["1", "2", "3", "42", "255", "256", "512", "1024", "65536", "-1", "-256", "2147483647"]);
            lines.push(format!("exit {}", code));
        }
        Ending::ExitZero => lines.push("exit 0".to_string()),
        Ending::ExitText => lines.push(format!("exit {}", t.pick(&["done", "\"all good\"", "1.5", "0x10", "\"\""]))),
        Ending::ParseError => {
            let (bad, _, _) = malformed_line(t);
            // malformed_line may plant a '!' directive: keep only the kinds without file access
            lines.push(bad);
        }
        Ending::FatalError => {
            lines.push("exit_on_error true".to_string());
            lines.push(format!("trigger_error \"fatal {}\"", t.below(100)));
        }
    }
    // what follows must not run when the script stopped
    lines.extend(tail);
    let mut text = lines.join("\n");
    text.push('\n');
    text.retain(|c| c != '\0');
    (text, ending)
}

struct Ran {
    status: Option<i32>,
    stdout: String,
}

fn run_duck(args: &[&str]) -> Ran {
    let out = Command::new(duck()).args(args).stdin(std::process::Stdio::null()).output().expect("spawn duck");
    Ran { status: out.status.code(), stdout: String::from_utf8_lossy(&out.stdout).to_string() }
}

fn case_run(t: &mut Tape, st: &mut Stats) -> Verdict {
    ensure_duck();
    let (text, ending) = gen_script(t, st);
    if text.contains("!include_files") || text.contains("!print") {
        return Verdict::Discard("planted line is a pre-processor directive");
    }
    st.class(&format!("ending-{:?}", ending));
    let form = t.below(3);
    let dir = format!("{}/c20-{:?}", scratch_root(), std::thread::current().id()).replace(['(', ')'], "");
    let _ = std::fs::create_dir_all(&dir);
    let mut path = format!("{}/script.ds", dir);
    let mut text = text;
    // library decision, in process, same SDK
    hz_reset();
    let lib = if form == 0 {
        if t.chance(1, 3) {
            // the script pulls in a file by a relative path and is reached through a symbolic link in another
            // directory: the tool must look where the library looks (both are given the same path)
            let _ = std::fs::create_dir_all(format!("{}/real", dir));
            let _ = std::fs::create_dir_all(format!("{}/link", dir));
            text = format!("!include_files ./inc.ds\n{}", text);
            std::fs::write(format!("{}/real/script.ds", dir), &text).expect("write");
            std::fs::write(format!("{}/link/inc.ds", dir), "echo from the file next to the link\n").expect("write");
            if t.flip() {
                std::fs::write(format!("{}/real/inc.ds", dir), "echo from the file next to the link target\n").expect("write");
                st.class("decoy-include-next-to-the-link-target");
            }
            path = format!("{}/link/script.ds", dir);
            std::os::unix::fs::symlink("../real/script.ds", &path).expect("symlink");
            st.class("script-reached-through-a-symlink-with-relative-include");
        } else {
            std::fs::write(&path, &text).expect("write");
        }
        run_file(&path, sdk_context(), 100_000, None)
    } else {
        run_text(&text, sdk_context(), 100_000, None)
    };
    if lib.fuel_exhausted {
        let _ = std::fs::remove_dir_all(&dir);
        return Verdict::Discard("library run did not finish within the fuel");
    }
    let cli = match form {
        0 => run_duck(&[&path]),
        1 => run_duck(&["-e", &text]),
        _ => run_duck(&["--eval", &text]),
    };
    let _ = std::fs::remove_dir_all(&dir);
    st.class(["form-file", "form-e", "form-eval"][form]);
    let form_name = ["duck <file>", "duck -e <text>", "duck --eval <text>"][form];
    let d = |what: &str, extra: serde_json::Value| {
        json!({"script": text, "form": form_name, "mismatch": what, "detail": extra, "cli_status": cli.status, "cli_stdout": cli.stdout, "library_output": lib.out,
               "library_result": match &lib.result { Ok(_) => "Ok".to_string(), Err(e) => format!("{}", e) }})
    };
    match &lib.result {
        Ok(_) => {
            if cli.status != Some(0) {
                return fail("C20/run/library-ok-cli-failed", d("library run succeeded but the tool exited non-zero", json!(null)));
            }
            if cli.stdout != lib.out {
                return fail("C20/run/output-differs", d("output differs", json!(null)));
            }
        }
        Err(e) => {
            match cli.status {
                Some(0) => return fail(&format!("C20/run/library-failed-cli-exit-0/{:?}", ending), d("library run failed but the tool exited 0", json!(null))),
                None => return fail("C20/run/cli-killed-by-signal", d("the tool was killed by a signal", json!(null))),
                _ => {}
            }
            let msg = format!("Error: {}", e);
            match cli.stdout.find(&msg) {
                None => return fail("C20/run/error-message-missing", d("stdout does not contain 'Error: ' + the library error", json!({"expected": msg}))),
                Some(pos) => {
                    if cli.stdout[..pos] != lib.out {
                        return fail("C20/run/output-differs", d("output before the error differs", json!(null)));
                    }
                }
            }
        }
    }
    let printed = !lib.out.is_empty();
    let nt = printed && (lib.result.is_ok() || ending != Ending::ParseError);
    if st.want_sample() && nt && lib.result.is_err() {
        let s = text.clone();
        st.sample(|| json!({"script": s, "ending": format!("{:?}", ending)}));
    }
    Verdict::Pass(if nt { Some(fp(&(&text, form))) } else { None })
}

// ---------------------------------------------------------------------------------------------
// lint
// ---------------------------------------------------------------------------------------------

const LOWER: &[&str] = &["a", "b", "cmd", "x", "out", "label", "é", "ß", "я", "1", "_", "-", ".", "日", "::", "s"];
const UPPER: &[&str] = &["A", "Z", "É", "Я", "Σ", "Q"];

fn ident(t: &mut Tape, upper: bool) -> String {
    let n = 1 + t.len(4);
    let mut s = String::from(*t.pick_ref(&["a", "c", "x", "é", "l"]));
    for _ in 0..n {
        s.push_str(t.pick(LOWER));
    }
    if upper {
        // one upper-case letter at a random position
        let pos = t.below(s.chars().count() + 1);
        let idx = s.char_indices().nth(pos).map(|(i, _)| i).unwrap_or(s.len());
        s.insert_str(idx, t.pick(UPPER));
    }
    s
}

/// my own predicate: no character is changed by lower-casing it
fn is_lower(s: &str) -> bool {
    s.chars().all(|c| {
        let mut l = c.to_lowercase();
        l.next() == Some(c) && l.next().is_none()
    })
}


/// (child-output) a script that prints and, in between, starts a child process writing to the inherited stdout: the
/// tool's whole stdout must equal the stdout of the library run (done by this harness as a process of its own).
fn case_child_output(t: &mut Tape, st: &mut Stats) -> Verdict {
    ensure_duck();
    let echo = ["/bin/echo", "/usr/bin/echo"].iter().find(|p| std::path::Path::new(p).exists()).copied();
    let echo = match echo {
        Some(e) => e,
        None => return Verdict::Discard("no echo binary"),
    };
    if t.chance(1, 8) {
        // a script that (transitively) includes itself, the files named in any spelling: the tool reports the
        // library's error like any other - it is not killed
        let len = 1 + t.below(3);
        let style = t.below(6);
        let dir = format!("{}/c20cyc-{:?}", scratch_root(), std::thread::current().id()).replace(['(', ')'], "");
        let _ = std::fs::remove_dir_all(&dir);
        let _ = std::fs::create_dir_all(format!("{}/sub", dir));
        for i in 0..len {
            let target = crate::props::c07::cycle_target(&dir, (i + 1) % len, style);
            std::fs::write(format!("{}/f{}.ds", dir, i), format!("echo file {}\n!include_files {}\necho after\n", i, target)).expect("write");
        }
        let path = format!("{}/f0.ds", dir);
        let me = std::env::current_exe().expect("current exe");
        let lib = Command::new(&me).args(["librun", &path]).stdin(std::process::Stdio::null()).output().expect("spawn librun");
        let form = t.below(2);
        let cli = if form == 0 { run_duck(&[&path]) } else { run_duck(&[["-l", "--lint"][t.below(2)], &path]) };
        let _ = std::fs::remove_dir_all(&dir);
        st.class("script-that-includes-itself");
        let d = json!({"cycle_length": len, "path_style": style, "form": if form == 0 { "run" } else { "lint" }, "library_status": lib.status.code(), "tool_status": cli.status, "tool_stdout": cli.stdout.chars().take(300).collect::<String>()});
        if cli.status.is_none() {
            return fail("C20/include-cycle/cli-killed-by-signal", d);
        }
        if lib.status.code() == Some(1) && (cli.status == Some(0) || !cli.stdout.contains("Error")) {
            return fail("C20/include-cycle/library-failed-cli-did-not-report", d);
        }
        return Verdict::Pass(Some(fp(&(len, style, form))));
    }
    let mut lines = vec![];
    let mut children = 0;
    let n = 2 + t.below(6);
    for i in 0..n {
        if t.chance(1, 3) {
            lines.push(format!("exec {} child-{}", echo, i));
            children += 1;
        } else {
            lines.push(format!("echo own line {} {}", i, word(t)));
        }
    }
    if children == 0 {
        lines.insert(1, format!("exec {} child-only", echo));
    }
    let fails = t.chance(1, 4);
    if fails {
        lines.push("assert false \"planted\"".to_string());
    }
    let text = format!("{}\n", lines.join("\n"));
    let dir = format!("{}/c20c-{:?}", scratch_root(), std::thread::current().id()).replace(['(', ')'], "");
    let _ = std::fs::create_dir_all(&dir);
    let path = format!("{}/script.ds", dir);
    std::fs::write(&path, &text).expect("write");
    let me = std::env::current_exe().expect("current exe");
    let lib = Command::new(&me).args(["librun", &path]).stdin(std::process::Stdio::null()).output().expect("spawn librun");
    let cli = run_duck(&[&path]);
    let _ = std::fs::remove_dir_all(&dir);
    let lib_out = String::from_utf8_lossy(&lib.stdout).to_string();
    st.class(if fails { "child-output-failing-script" } else { "child-output-succeeding-script" });
    let d = json!({"script": text, "library_stdout": lib_out, "library_status": lib.status.code(), "tool_stdout": cli.stdout, "tool_status": cli.status});
    if (lib.status.code() == Some(0)) != (cli.status == Some(0)) {
        return fail("C20/child-output/status-differs", d);
    }
    if cli.stdout != lib_out {
        return fail("C20/child-output/output-differs", d);
    }
    Verdict::Pass(Some(fp(&text)))
}

fn case_lint(t: &mut Tape, st: &mut Stats) -> Verdict {
    ensure_duck();
    let n = 1 + t.len(8);
    let mut lines = vec![];
    let mut all_lower = true;
    let bad_at = if t.flip() { Some(t.below(n)) } else { None };
    let mut bad_part = "";
    for i in 0..n {
        let want_bad = bad_at == Some(i);
        let part = if want_bad { t.below(3) } else { 3 };
        let has_label = part == 0 || t.chance(1, 3);
        let has_out = part == 2 || t.chance(1, 3);
        // a label-only line is a shape of its own (nothing else on the line)
        let label_only = has_label && !has_out && part != 1 && t.chance(1, 3);
        let mut line = String::new();
        if has_label {
            line.push(':');
            line.push_str(&ident(t, part == 0));
            line.push(' ');
        }
        // an output variable with no command after it is a line shape of its own, too (it clears the variable)
        let output_only = has_out && part != 1 && t.chance(1, 3);
        if output_only {
            line.push_str(&ident(t, part == 2));
            line.push_str(" =");
            st.class("output-variable-without-command");
            if want_bad && part == 2 {
                st.class("upper-case-output-variable-without-command");
            }
        } else if !label_only {
            if has_out {
                line.push_str(&ident(t, part == 2));
                line.push_str(" = ");
            }
            line.push_str(&ident(t, part == 1));
            line.push_str(" Arg UPPER \"Quoted Arg\"");
        } else {
            st.class("label-only-line");
        }
        if want_bad {
            bad_part = ["label", "command", "output"][part];
            if label_only {
                st.class("upper-case-label-alone-on-its-line");
            }
        }
        lines.push(line.trim_end().to_string());
        if t.chance(1, 5) {
            lines.push("# A Comment With Upper Case".to_string());
        }
    }
    let text = format!("{}\n", lines.join("\n"));
    // expected by my predicate over the parsed parts
    for l in &lines {
        if l.starts_with('#') {
            continue;
        }
        for (i, tok) in l.split(' ').enumerate() {
            if tok == "Arg" {
                break;
            }
            if tok == "=" {
                continue;
            }
            let _ = i;
            if !is_lower(tok) {
                all_lower = false;
            }
        }
    }
    let malformed = t.chance(1, 8);
    let text = if malformed { format!("{}cmd \"unterminated\n", text) } else { text };
    let dir = format!("{}/c20l-{:?}", scratch_root(), std::thread::current().id()).replace(['(', ')'], "");
    let _ = std::fs::create_dir_all(&dir);
    let mut path = format!("{}/lint.ds", dir);
    let mut text = text;
    let mut all_lower = all_lower;
    if !malformed && t.chance(1, 6) {
        // the linted path is a symbolic link in another directory and the file starts with a relative include: what
        // is linted is what the library parses for that path, i.e. with the file that sits next to the LINK
        let _ = std::fs::create_dir_all(format!("{}/real", dir));
        let _ = std::fs::create_dir_all(format!("{}/link", dir));
        text = format!("!include_files ./inc.ds\n{}", text);
        let near_link_is_bad = t.flip();
        let (near_link, near_target) = if near_link_is_bad { ("Included = set 1\n", "included = set 1\n") } else { ("included = set 1\n", "Included = set 1\n") };
        std::fs::write(format!("{}/real/lint.ds", dir), &text).expect("write");
        std::fs::write(format!("{}/link/inc.ds", dir), near_link).expect("write");
        if t.chance(3, 4) {
            std::fs::write(format!("{}/real/inc.ds", dir), near_target).expect("write");
        }
        path = format!("{}/link/lint.ds", dir);
        std::os::unix::fs::symlink("../real/lint.ds", &path).expect("symlink");
        if near_link_is_bad {
            all_lower = false;
            if bad_part.is_empty() {
                bad_part = "output";
            }
        }
        st.class("linted-path-is-a-symlink-with-a-relative-include");
    } else {
        std::fs::write(&path, &text).expect("write");
    }
    let parses = duckscript::parser::parse_file(&path).is_ok();
    let flag = *t.pick_ref(&["-l", "--lint"]);
    let cli = run_duck(&[flag, &path]);
    let _ = std::fs::remove_dir_all(&dir);
    let accept = parses && all_lower;
    st.class(if accept { "lint-accepts" } else if !parses { "lint-parse-error" } else { "lint-rejects-upper-case" });
    let d = |what: &str| json!({"file": text, "flag": flag, "mismatch": what, "expected_accept": accept, "upper_case_part": bad_part, "cli_status": cli.status, "cli_stdout": cli.stdout});
    if accept {
        if cli.status != Some(0) {
            return fail("C20/lint/valid-file-rejected", d("a file that parses and is all lower-case was rejected"));
        }
    } else {
        if cli.status == Some(0) {
            return fail(&format!("C20/lint/invalid-file-accepted/{}", if parses { bad_part } else { "parse-error" }), d("a file that must be rejected was accepted"));
        }
        if !cli.stdout.contains("Error:") {
            return fail("C20/lint/error-message-missing", d("rejection without an 'Error:' message"));
        }
    }
    Verdict::Pass(Some(fp(&(&text, flag))))
}

fn case_info(t: &mut Tape, _st: &mut Stats) -> Verdict {
    ensure_duck();
    match t.below(3) {
        0 => {
            let r = run_duck(&["--version"]);
            let want = [duckscript::version(), duckscriptsdk::version()];
            if r.status != Some(0) || !want.iter().all(|v| r.stdout.contains(v.as_str())) || r.stdout.lines().count() != 3 {
                return fail("C20/version", json!({"status": r.status, "stdout": r.stdout, "library_versions": want}));
            }
        }
        k => {
            let r = run_duck(&[["--help", "-h"][k - 1]]);
            if r.status != Some(0) || !r.stdout.to_lowercase().contains("usage") {
                return fail("C20/help", json!({"status": r.status, "stdout": r.stdout}));
            }
        }
    }
    Verdict::Pass(Some(t.used() as u64))
}

pub fn property() -> Property {
    Property {
        id: "C20",
        rule: "(run) generated deterministic scripts (echo / set / calc / if-else / for-in / functions / goto / survivable errors; one body item in a hundred and ten prints 70..300 KiB in a loop) ending by success, unknown command, failing assert, exit with a non-zero code (incl. 256, 512, 65536, negative), exit 0, exit with text, a malformed line (C08 kinds), or exit_on_error + error, followed by lines that must not run; each is run by the library in process (same SDK, captured output) and by the real duck binary as 'duck file' (one file case in three: the file is a symbolic link in another directory and starts with a relative !include_files, with or without a decoy of the same name next to the link target; library and tool are given the same path), 'duck -e text' or 'duck --eval text': exit status 0 iff the library run is Ok, otherwise non-zero with stdout containing 'Error: ' + the library error's Display, and the stdout before it equal to the library output; (child-output) scripts that print and in between start a child process (exec of the echo binary) writing to the inherited stdout, succeeding or ending in a failed assert: the tool's whole stdout and zero / non-zero status must equal those of the library run, which the harness performs as a process of its own ('dsverif librun') so that the child's output lands in the same captured stream; (lint) files whose labels / commands / output variables are spelled over lower-case, digits, '_', non-ASCII lower (é ß я 日) with at most one planted upper-case letter (A Z É Я Σ Q) in a label (also alone on its line), command or output, upper-case arguments and comments everywhere, optionally a malformed last line, one file in six reached through a symbolic link in another directory and starting with a relative include whose file next to the link and next to the link target differ in letter case: 'duck -l|--lint file' exits 0 iff the file parses and every label, command and output is lower-case by an independent per-character predicate; (info) --version prints the three version strings, --help/-h print the usage. Non-trivial: a script that printed something and (for failures) failed after that; distinct by (script, form)",
        assumptions: &[
            "the duck binary is built from /repo's working tree by check.sh (cargo build -p duckscript_cli, hooks off)",
            "REPL mode (no arguments) and title-case letters are not generated",
        ],
        sections: vec![
            Section {
                name: "run",
                plan: |t| match t {
                    Tier::Quick => Plan::Random { cases: 24_000, max_len: 200 },
                    Tier::Thorough => Plan::Random { cases: 400_000, max_len: 300 },
                },
                case: case_run,
                min_classes: &[("ending-ExitNonZero", 200), ("ending-ParseError", 100), ("ending-FatalError", 200), ("form-file", 800), ("form-eval", 800), ("script-reached-through-a-symlink-with-relative-include", 200), ("script-printing-over-64-KiB", 200)],
            },
            Section {
                name: "child-output",
                plan: |t| match t {
                    Tier::Quick => Plan::Random { cases: 1_600, max_len: 60 },
                    Tier::Thorough => Plan::Random { cases: 30_000, max_len: 60 },
                },
                case: case_child_output,
                min_classes: &[("child-output-succeeding-script", 500), ("script-that-includes-itself", 100)],
            },
            Section {
                name: "lint",
                plan: |t| match t {
                    Tier::Quick => Plan::Random { cases: 12_000, max_len: 200 },
                    Tier::Thorough => Plan::Random { cases: 200_000, max_len: 300 },
                },
                case: case_lint,
                min_classes: &[("lint-accepts", 500), ("lint-rejects-upper-case", 500), ("lint-parse-error", 100), ("upper-case-label-alone-on-its-line", 30), ("upper-case-output-variable-without-command", 30), ("linted-path-is-a-symlink-with-a-relative-include", 300)],
            },
            Section {
                name: "info",
                plan: |_| Plan::Random { cases: 32, max_len: 2 },
                case: case_info,
                min_classes: &[],
            },
        ],
        probes: vec![],
    }
}
