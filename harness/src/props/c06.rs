//! C06 — conditions: one truthiness rule, and-of-ors grouping, parentheses.

use crate::engine::*;
use crate::hz::*;
use serde_json::json;
use std::sync::OnceLock;

#[derive(Clone, Copy, Debug, PartialEq, Eq, Hash)]
pub enum Tok {
    T,
    F,
    And,
    Or,
    Open,
    Close,
}

const TRUTHY: &[&str] = &[
    "true", "1", "yes", "x", "TRUE", "abc", "00", "0.0", " false", "false ", " 0", " no", "no ", " false ", "nope", "off", "null", "fa1se", "ｆalse", "é", "-1", "n", "f", "none", "0 ", " ", "knot", "ok", "on", "and2",
    "a b", "#", "\"\"", "0x0", "-0", "+0", "00", "faLsE!", "NO.", "ноль", "い",
];
const FALSY: &[&str] = &["", "0", "false", "no", "FALSE", "False", "fAlSe", "NO", "No", "nO", "falsE"];

/// the truthiness table of the statement (ASCII case-insensitive)
pub fn truthy(v: Option<&str>) -> bool {
    match v {
        None => false,
        Some(s) => !(s.is_empty() || s == "0" || s.eq_ignore_ascii_case("false") || s.eq_ignore_ascii_case("no")),
    }
}

/// reference evaluator over tokens with atom truth values: AND over and-segments of OR over atoms
pub fn eval_ref(toks: &[(Tok, bool)]) -> bool {
    // split top level into atoms and connectives
    let mut segs: Vec<bool> = vec![]; // OR value of each and-separated segment
    let mut cur: Option<bool> = None;
    let mut i = 0;
    while i < toks.len() {
        match toks[i].0 {
            Tok::T | Tok::F => {
                let v = toks[i].1;
                cur = Some(cur.unwrap_or(false) || v);
                i += 1;
            }
            Tok::Open => {
                let mut depth = 1;
                let mut j = i + 1;
                while depth > 0 {
                    match toks[j].0 {
                        Tok::Open => depth += 1,
                        Tok::Close => depth -= 1,
                        _ => {}
                    }
                    j += 1;
                }
                let inner = &toks[i + 1..j - 1];
                let v = if inner.is_empty() { false } else { eval_ref(inner) };
                cur = Some(cur.unwrap_or(false) || v);
                i = j;
            }
            Tok::Or => {
                i += 1;
            }
            Tok::And => {
                segs.push(cur.take().unwrap_or(false));
                i += 1;
            }
            Tok::Close => unreachable!(),
        }
    }
    segs.push(cur.unwrap_or(false));
    segs.iter().all(|b| *b)
}

/// all well-formed sequences with exactly `n` tokens for E and for "E or empty"
fn enumerate(max: usize) -> Vec<Vec<Tok>> {
    // e[n] = sequences of E with n tokens; a[n] = atoms with n tokens
    let mut e: Vec<Vec<Vec<Tok>>> = vec![vec![]; max + 1];
    let mut a: Vec<Vec<Vec<Tok>>> = vec![vec![]; max + 1];
    for n in 1..=max {
        // atoms
        let mut an: Vec<Vec<Tok>> = vec![];
        if n == 1 {
            an.push(vec![Tok::T]);
            an.push(vec![Tok::F]);
        }
        if n == 2 {
            an.push(vec![Tok::Open, Tok::Close]);
        }
        if n >= 3 {
            for inner in &e[n - 2] {
                let mut s = vec![Tok::Open];
                s.extend_from_slice(inner);
                s.push(Tok::Close);
                an.push(s);
            }
        }
        a[n] = an;
        // E with n tokens = atom(n) | E(k) conn atom(n-k-1)
        let mut en: Vec<Vec<Tok>> = a[n].clone();
        for k in 1..n.saturating_sub(1) {
            let rest = n - k - 1;
            if rest == 0 {
                continue;
            }
            for left in &e[k] {
                for right in &a[rest] {
                    for c in [Tok::And, Tok::Or] {
                        let mut s = left.clone();
                        s.push(c);
                        s.extend_from_slice(right);
                        en.push(s);
                    }
                }
            }
        }
        e[n] = en;
    }
    let mut all = vec![];
    for n in 1..=max {
        all.extend(e[n].iter().cloned());
    }
    all
}

static SEQ_QUICK: OnceLock<Vec<Vec<Tok>>> = OnceLock::new();
static SEQ_THOROUGH: OnceLock<Vec<Vec<Tok>>> = OnceLock::new();
const QUICK_MAX: usize = 11;
const THOROUGH_MAX: usize = 15;

fn seqs(thorough: bool) -> &'static Vec<Vec<Tok>> {
    if thorough {
        SEQ_THOROUGH.get_or_init(|| enumerate(THOROUGH_MAX))
    } else {
        SEQ_QUICK.get_or_init(|| enumerate(QUICK_MAX))
    }
}

fn check_pool() {
    static DONE: OnceLock<()> = OnceLock::new();
    DONE.get_or_init(|| {
        let c = sdk_context();
        for v in TRUTHY.iter().chain(FALSY.iter()) {
            if c.commands.exists(v) {
                panic!("harness: atom value {:?} is a registered command name", v);
            }
            if ["and", "or", "(", ")"].contains(v) {
                panic!("harness: atom value {:?} is a keyword", v);
            }
        }
    });
}

/// every registered name of not / if / elseif / else / while, from the live registry (index: 0 not, 1 if, 2 elseif, 3 else, 4 while)
fn consumer_names() -> Vec<Vec<String>> {
    thread_local! {
        static NAMES: std::cell::RefCell<Option<Vec<Vec<String>>>> = std::cell::RefCell::new(None);
    }
    NAMES.with(|n| {
        let mut n = n.borrow_mut();
        if n.is_none() {
            let c = sdk_context();
            let mut all = vec![];
            for alias in ["not", "if", "elseif", "else", "while"] {
                let cmd = c.commands.get(alias).unwrap_or_else(|| panic!("harness: no command {}", alias));
                let mut v = vec![cmd.name()];
                v.extend(cmd.aliases());
                all.push(v);
            }
            *n = Some(all);
        }
        n.clone().unwrap()
    })
}

/// Runs one condition through the four consumers and compares with the reference.
fn run_condition(toks: &[Tok], mut spell: impl FnMut(bool) -> String, st: &mut Stats, tag: &str) -> Verdict {
    check_pool();
    let mut side = vec![];
    let mut cond = String::new();
    let mut valued: Vec<(Tok, bool)> = vec![];
    let mut values_desc = vec![];
    for t in toks {
        if !cond.is_empty() {
            cond.push(' ');
        }
        match t {
            Tok::T | Tok::F => {
                let want = *t == Tok::T;
                let v = spell(want);
                debug_assert_eq!(truthy(Some(&v)), want);
                cond.push_str(&format!("${{v{}}}", side.len()));
                values_desc.push(v.clone());
                side.push(v);
                valued.push((*t, want));
            }
            Tok::And => {
                cond.push_str("and");
                valued.push((*t, false));
            }
            Tok::Or => {
                cond.push_str("or");
                valued.push((*t, false));
            }
            Tok::Open => {
                cond.push('(');
                valued.push((*t, false));
            }
            Tok::Close => {
                cond.push(')');
                valued.push((*t, false));
            }
        }
    }
    let expected = eval_ref(&valued);
    let mut script = String::new();
    for i in 0..side.len() {
        script.push_str(&format!("v{} = put {}\n", i, i));
    }
    // every consumer under any of its registered names (the choice is a function of the condition)
    let h = toks.len() * 31 + side.len() * 7 + side.iter().map(|v| v.len()).sum::<usize>();
    let names = consumer_names();
    let pick = |k: usize, salt: usize| -> &str { &names[k][(h / (salt + 1)) % names[k].len()] };
    if names.iter().enumerate().any(|(k, _)| pick(k, k).contains("::")) {
        st.class("consumer-spelled-with-its-full-name");
    }
    script.push_str(&format!("r = {} {}\n", pick(0, 0), cond));
    script.push_str(&format!("{} {}\n    emit if T\n{}\n    emit if F\nend\n", pick(1, 1), cond, pick(3, 3)));
    script.push_str(&format!("{} false\n    emit wrong\n{} {}\n    emit elseif T\n{}\n    emit elseif F\nend\n", pick(1, 4), pick(2, 2), cond, pick(3, 5)));
    script.push_str(&format!("{} {}\n    emit while T\n    goto :out\nend\n:out emit done\n", pick(4, 6), cond));
    hz_reset();
    with_hz(|h| h.side = side);
    let out = run_text(&script, sdk_context(), 20_000, None);
    let has_group = toks.contains(&Tok::Open);
    let both = toks.contains(&Tok::And) && toks.contains(&Tok::Or);
    if toks.first() == Some(&Tok::Open) && toks.iter().skip_while(|t| **t != Tok::Close).nth(1) == Some(&Tok::Or) {
        st.class("group-first-then-or");
    }
    if toks.last() == Some(&Tok::Close) && toks.len() > 2 {
        st.class("group-last");
    }
    if toks.windows(2).any(|w| w[0] == Tok::Open && w[1] == Tok::Open) {
        st.class("nested-group");
    }
    if toks.windows(2).any(|w| w[0] == Tok::Open && w[1] == Tok::Close) {
        st.class("empty-group");
    }
    let describe = |what: &str, got: serde_json::Value| {
        json!({"condition_tokens": format!("{:?}", toks), "atom_values": values_desc, "condition_as_written": cond, "expected_truth": expected, "consumer": what, "got": got})
    };
    let ctx = match out.result {
        Ok(c) => c,
        Err(e) => return fail(&format!("C06/{}/run-error", tag), describe("run", json!(format!("{:?}", e)))),
    };
    let trace: Vec<String> = with_hz(|h| h.trace.iter().map(|e| e.args.join(" ")).collect());
    let r = ctx.variables.get("r").cloned();
    let want_not = if expected { "false" } else { "true" };
    if r.as_deref() != Some(want_not) {
        return fail(&format!("C06/{}/not", tag), describe("not", json!(r)));
    }
    let tf = |b: bool| if b { "T" } else { "F" };
    let mut want_trace = vec![format!("if {}", tf(expected)), format!("elseif {}", tf(expected))];
    if expected {
        want_trace.push("while T".to_string());
    }
    want_trace.push("done".to_string());
    if trace != want_trace {
        let which = if trace.get(0) != want_trace.get(0) {
            "if"
        } else if trace.get(1) != want_trace.get(1) {
            "elseif"
        } else {
            "while"
        };
        return fail(&format!("C06/{}/{}", tag, which), describe(which, json!(trace)));
    }
    if st.want_sample() && has_group && both {
        let c = cond.clone();
        let v = values_desc.clone();
        st.sample(|| json!({"condition": c, "atom_values": v, "truth": expected}));
    }
    Verdict::Pass(if has_group || both { Some(fp(&(toks, &values_desc))) } else { None })
}

fn spell_from(seed: &mut u64) -> impl FnMut(bool) -> String + '_ {
    move |want: bool| {
        *seed = seed.wrapping_mul(6364136223846793005).wrapping_add(1442695040888963407);
        let r = (*seed >> 33) as usize;
        if want {
            TRUTHY[r % TRUTHY.len()].to_string()
        } else {
            FALSY[r % FALSY.len()].to_string()
        }
    }
}

fn case_exhaustive_quick(t: &mut Tape, st: &mut Stats) -> Verdict {
    let idx = ((t.raw() as u64) << 32) | t.raw() as u64;
    let s = &seqs(false)[idx as usize];
    let mut seed = idx.wrapping_add(12345);
    run_condition(s, spell_from(&mut seed), st, "grammar")
}

fn case_exhaustive_thorough(t: &mut Tape, st: &mut Stats) -> Verdict {
    let idx = ((t.raw() as u64) << 32) | t.raw() as u64;
    let s = &seqs(true)[idx as usize];
    let mut seed = idx.wrapping_add(777);
    run_condition(s, spell_from(&mut seed), st, "grammar")
}

fn gen_e(t: &mut Tape, depth: usize, budget: &mut usize, out: &mut Vec<Tok>) {
    let n = 1 + t.len(5);
    for i in 0..n {
        if i > 0 {
            out.push(if t.flip() { Tok::And } else { Tok::Or });
        }
        if *budget == 0 {
            out.push(if t.flip() { Tok::T } else { Tok::F });
            continue;
        }
        *budget -= 1;
        match t.weighted(&[3, 3, 2]) {
            0 => out.push(Tok::T),
            1 => out.push(Tok::F),
            _ => {
                if depth >= 6 {
                    out.push(Tok::F)
                } else {
                    out.push(Tok::Open);
                    if !t.chance(1, 8) {
                        gen_e(t, depth + 1, budget, out);
                    }
                    out.push(Tok::Close);
                }
            }
        }
    }
}

fn case_random(t: &mut Tape, st: &mut Stats) -> Verdict {
    let mut toks = vec![];
    if t.chance(1, 25) {
        // a wide statement: 40..140 parenthesised groups on one level (the rule does not depend on how many there are)
        let groups = 40 + t.below(101);
        for g in 0..groups {
            if g > 0 {
                toks.push(if t.chance(1, 3) { Tok::And } else { Tok::Or });
            }
            if t.chance(1, 6) {
                toks.push(if t.flip() { Tok::T } else { Tok::F });
                continue;
            }
            toks.push(Tok::Open);
            let atoms = t.below(3);
            for a in 0..atoms {
                if a > 0 {
                    toks.push(if t.flip() { Tok::And } else { Tok::Or });
                }
                toks.push(if t.chance(1, 4) { Tok::T } else { Tok::F });
            }
            toks.push(Tok::Close);
        }
        if groups > 64 {
            st.class("more-than-64-groups-on-one-level");
        }
    } else {
        let mut budget = 24;
        gen_e(t, 0, &mut budget, &mut toks);
        if toks.len() > 60 {
            return Verdict::Discard("over 60 tokens");
        }
    }
    if toks.len() > 14 {
        st.class("longer-than-exhaustive-bound");
    }
    let mut picks: Vec<u32> = vec![];
    for _ in 0..toks.len() {
        picks.push(t.raw());
    }
    let mut i = 0;
    let spell = |want: bool| {
        let r = picks[i % picks.len().max(1)] as usize;
        i += 1;
        if want {
            TRUTHY[r % TRUTHY.len()].to_string()
        } else {
            FALSY[r % FALSY.len()].to_string()
        }
    };
    run_condition(&toks, spell, st, "random")
}


/// (re-evaluated) the same if / elseif / while / not lines are reached several times (inside a loop) while the atom
/// values change between the visits: every visit decides by the evaluation of the values current at that visit.
fn case_repeated(t: &mut Tape, st: &mut Stats) -> Verdict {
    check_pool();
    let mut a = vec![];
    let mut b = vec![];
    let mut budget = 4;
    gen_e(t, 0, &mut budget, &mut a);
    let mut budget = 4;
    gen_e(t, 0, &mut budget, &mut b);
    if a.len() + b.len() > 30 {
        return Verdict::Discard("over 30 tokens");
    }
    // atoms are variables a0.. (numbered across both conditions), re-assigned at the top of every visit
    let mut n_atoms = 0;
    let mut written = |toks: &[Tok], n_atoms: &mut usize| {
        let mut s = String::new();
        for t in toks {
            if !s.is_empty() {
                s.push(' ');
            }
            match t {
                Tok::T | Tok::F => {
                    s.push_str(&format!("${{a{}}}", *n_atoms));
                    *n_atoms += 1;
                }
                Tok::And => s.push_str("and"),
                Tok::Or => s.push_str("or"),
                Tok::Open => s.push('('),
                Tok::Close => s.push(')'),
            }
        }
        s
    };
    let ca = written(&a, &mut n_atoms);
    let cb = written(&b, &mut n_atoms);
    let visits = 2 + t.below(4);
    let with_else = t.chance(1, 4);
    // the lines are visited again by a while loop, a for-in loop, or by a function that calls itself from inside the
    // taken first branch (the outer visit is then still inside its if block while the inner one runs the same lines)
    let looping = t.below(3);
    let mut script = String::new();
    match looping {
        0 => script.push_str(&format!("while tick visits {}\n", visits)),
        1 => script.push_str(&format!("its = array{}\nfor it in ${{its}}\n", " v".repeat(visits))),
        _ => script.push_str("fn visit\n"),
    }
    for i in 0..n_atoms {
        script.push_str(&format!("    a{} = cap\n", i));
    }
    script.push_str(&format!("    r = not {}\n    emit not ${{r}}\n", ca));
    if looping == 2 {
        script.push_str(&format!("    if {}\n        emit if\n        if tick rec {}\n            visit\n        end\n        emit back\n    elseif {}\n        emit elseif\n", ca, visits - 1, cb));
    } else {
        script.push_str(&format!("    if {}\n        emit if\n    elseif {}\n        emit elseif\n", ca, cb));
    }
    if with_else {
        script.push_str("    else\n        emit else\n");
    }
    script.push_str("    end\n");
    if looping == 2 {
        script.push_str("    emit visited\nend\nvisit\n");
    } else {
        script.push_str(&format!("    while {}\n        emit while\n        goto :out\n    end\n    :out emit visited\n", cb));
        script.push_str("end\n");
    }
    script.push_str("emit done\n");
    // per-visit values
    let mut answers = vec![];
    let mut expected = vec![];
    let mut decisions = vec![];
    for _ in 0..visits {
        let mut truth = vec![];
        for _ in 0..n_atoms {
            let want = t.flip();
            let r = t.raw() as usize;
            answers.push(if want { TRUTHY[r % TRUTHY.len()].to_string() } else { FALSY[r % FALSY.len()].to_string() });
            truth.push(want);
        }
        let mut k = 0;
        let mut valued = |toks: &[Tok]| -> Vec<(Tok, bool)> {
            toks.iter()
                .map(|t| match t {
                    Tok::T | Tok::F => {
                        k += 1;
                        (*t, truth[k - 1])
                    }
                    o => (*o, false),
                })
                .collect()
        };
        let va = valued(&a);
        let vb = valued(&b);
        let (ea, eb) = (eval_ref(&va), eval_ref(&vb));
        decisions.push((ea, eb));
        expected.push(format!("not {}", !ea));
        if ea {
            expected.push("if".to_string());
        } else if eb {
            expected.push("elseif".to_string());
        } else if with_else {
            expected.push("else".to_string());
        }
        if eb {
            expected.push("while".to_string());
        }
        expected.push("visited".to_string());
    }
    if looping == 2 {
        // recursive visits: visit j+1 happens inside the taken first branch of visit j
        fn rec(j: usize, decisions: &[(bool, bool)], with_else: bool, out: &mut Vec<String>) {
            let (ea, eb) = decisions[j];
            out.push(format!("not {}", !ea));
            if ea {
                out.push("if".to_string());
                if j + 1 < decisions.len() {
                    rec(j + 1, decisions, with_else, out);
                }
                out.push("back".to_string());
            } else if eb {
                out.push("elseif".to_string());
            } else if with_else {
                out.push("else".to_string());
            }
            out.push("visited".to_string());
        }
        expected.clear();
        rec(0, &decisions, with_else, &mut expected);
        if decisions[0].0 {
            st.class("same-if-line-entered-again-from-inside-its-taken-branch");
        }
    }
    expected.push("done".to_string());
    if decisions.windows(2).any(|w| w[0] == (false, true) && w[1] == (false, true)) {
        st.class("elseif-taken-on-consecutive-visits");
    }
    if decisions.windows(2).any(|w| w[0].0 != w[1].0 || w[0].1 != w[1].1) {
        st.class("decision-changes-between-visits");
    }
    hz_reset();
    with_hz(|h| h.cap_answers = answers.clone());
    let out = run_text(&script, sdk_context(), 40_000, None);
    let trace: Vec<String> = with_hz(|h| h.trace.iter().filter(|e| e.cmd == "emit").map(|e| e.args.join(" ")).collect());
    let describe = |what: &str, got: serde_json::Value| json!({"script": script, "atom_values_in_order_of_assignment": answers, "decisions_per_visit_(first,second)": decisions, "mismatch": what, "expected_trace": expected, "got": got});
    if out.fuel_exhausted {
        return fail("C06/repeated/does-not-terminate", describe("ran out of fuel", json!(null)));
    }
    if let Err(e) = &out.result {
        return fail("C06/repeated/run-error", describe("run failed", json!(format!("{:?}", e))));
    }
    if trace != expected {
        let i = trace.iter().zip(expected.iter()).position(|(x, y)| x != y).unwrap_or(trace.len().min(expected.len()));
        let which = match expected.get(i).or(trace.get(i)).map(|s| s.split(' ').next().unwrap_or("")) {
            Some("not") => "not",
            Some("if") => "if",
            Some("elseif") | Some("else") => "elseif",
            Some("while") => "while",
            _ => match trace.get(i).map(|s| s.split(' ').next().unwrap_or("")) {
                Some("if") => "if",
                Some("elseif") | Some("else") => "elseif",
                Some("while") => "while",
                _ => "sequence",
            },
        };
        return fail(&format!("C06/repeated/{}", which), describe("trace differs", json!(trace)));
    }
    if st.want_sample() {
        let sc = script.clone();
        let d = decisions.clone();
        st.sample(|| json!({"script": sc, "decisions_per_visit": d}));
    }
    let changing = decisions.windows(2).any(|w| w[0] != w[1]);
    Verdict::Pass(if changing { Some(fp(&(&script, &answers))) } else { None })
}

/// truthiness: single values through `not` and `if`
fn case_truthiness(t: &mut Tape, st: &mut Stats) -> Verdict {
    check_pool();
    let pool_len = TRUTHY.len() + FALSY.len();
    let sel = t.below(pool_len + 40);
    let undefined = sel == pool_len;
    let v: String = if sel < FALSY.len() {
        FALSY[sel].to_string()
    } else if sel < pool_len {
        TRUTHY[sel - FALSY.len()].to_string()
    } else if undefined {
        String::new()
    } else {
        // arbitrary string or a case variant of a falsy word
        if t.flip() {
            let base = t.pick(&["false", "no", "0", ""]);
            base.chars().map(|c| if t.flip() { c.to_ascii_uppercase() } else { c }).collect()
        } else {
            crate::gen::hazard_string(t, 4)
        }
    };
    let c = sdk_context();
    if ["and", "or", "(", ")"].contains(&v.as_str()) || c.commands.exists(&v) {
        return Verdict::Discard("value is a keyword or a command name");
    }
    let expected = if undefined { false } else { truthy(Some(&v)) };
    st.class(if expected { "truthy-value" } else { "falsy-value" });
    if undefined {
        st.class("absent-value");
    }
    // absent: an undefined variable, or a function in command position that ends without a value (bare return, or
    // running into its end) right after a command with a truthy output
    let absent_by_function = undefined && t.flip();
    // composed consumers (`if not ..`, `while not ..`) hand the value to `not` through the rebuilt line: only for
    // values outside the classes that C09 lists as altered on that way
    let composed = !undefined && crate::props::c09::known_class(&v, true, true).is_none();
    let mut script = String::new();
    let subject = if absent_by_function {
        st.class("absent-value-from-a-function-without-return-value");
        script.push_str(if t.flip() { "fn nov\n    inner = set yes\n    return\nend\n" } else { "fn nov\n    inner = set yes\nend\n" });
        "nov"
    } else {
        if !undefined {
            script.push_str("v = put 0\n");
        }
        "${v}"
    };
    script.push_str(&format!("r = not {}\nif {}\n    emit T\nelse\n    emit F\nend\n", subject, subject));
    if absent_by_function {
        script.push_str("if false\n    emit wrong\nelseif nov\n    emit ET\nelse\n    emit EF\nend\nwhile nov\n    emit WT\n    goto :wo\nend\n:wo emit WD\n");
    }
    if composed {
        st.class("value-through-if-not-and-while-not");
        script.push_str("if not ${v}\n    emit NT\nelse\n    emit NF\nend\nwhile not ${v}\n    emit WNT\n    goto :o\nend\n:o emit D\n");
    }
    hz_reset();
    with_hz(|h| h.side = vec![v.clone()]);
    let out = run_text(&script, c, 5_000, None);
    let ctx = match out.result {
        Ok(c) => c,
        Err(e) => return fail("C06/truthiness/run-error", json!({"value": v, "script": script, "error": format!("{:?}", e)})),
    };
    let trace: Vec<String> = with_hz(|h| h.trace.iter().filter(|e| e.cmd == "emit").map(|e| e.args.join(" ")).collect());
    let r = ctx.variables.get("r").cloned();
    let want_not = if expected { "false" } else { "true" };
    let mut want_trace = vec![if expected { "T" } else { "F" }.to_string()];
    if absent_by_function {
        want_trace.extend(["EF", "WD"].iter().map(|s| s.to_string()));
    }
    if composed {
        if expected {
            want_trace.extend(["NF", "D"].iter().map(|s| s.to_string()));
        } else {
            want_trace.extend(["NT", "WNT", "D"].iter().map(|s| s.to_string()));
        }
    }
    if r.as_deref() != Some(want_not) || trace != want_trace {
        let composed_only = r.as_deref() == Some(want_not) && trace.first() == want_trace.first() && !absent_by_function;
        return fail(
            &format!("C06/truthiness/{}{}", if expected { "truthy-read-as-falsy" } else { "falsy-read-as-truthy" }, if composed_only { "/composed-with-not" } else if absent_by_function { "/absent-from-function" } else { "" }),
            json!({"value": v, "undefined": undefined, "script": script, "expected_truthy": expected, "not_output": r, "expected_branches": want_trace, "branches": trace}),
        );
    }
    Verdict::Pass(Some(fp(&(v, undefined))))
}

pub fn property() -> Property {
    Property {
        id: "C06",
        rule: "(grammar) EXHAUSTIVE enumeration of every well-formed token sequence of E := A ((and|or) A)*, A := T | F | ( E? ) up to 11 tokens (quick) / 15 tokens (thorough), each T/F spelled with a truthy/falsy value from a pool and passed through a variable, run through all four consumers (not, if, elseif, while - each written with any of its registered names, aliases or the full std::... name) and compared with a 40-line and-of-ors reference evaluator; (random) longer sequences up to 60 tokens, nesting <= 6, and wide statements of 40..140 sibling groups (up to ~600 tokens); (re-evaluated) two conditions A, B of up to ~10 tokens whose atoms are variables re-assigned before each of 2..5 visits of the same `not A` / `if A .. elseif B [else] end` / `while B` lines inside a while or for-in loop, or by a function that calls itself from inside the taken first branch: every visit must decide by the values current at that visit; (truthiness) every falsy spelling with case variants, near-misses (incl. falsy words padded with blanks) and arbitrary strings through not / if - and, for values outside the C09 classes, through `if not` and `while not` - against the ASCII-case-insensitive table; 'absent' is an undefined variable or a function in command position that ends without a value after a command with a truthy output (through not, if, elseif, while). Non-trivial: sequence with a group or both connectives; distinct by (token sequence, atom values)",
        assumptions: &[
            "atom values are never the keywords and/or/(/) and never a registered command name (documented dispatch rule for the first token)",
            "only well-formed statements are generated",
        ],
        sections: vec![
            Section {
                name: "grammar-exhaustive-11",
                plan: |t| match t {
                    Tier::Quick => Plan::Exhaustive { count: seqs(false).len() as u64 },
                    Tier::Thorough => Plan::Skip,
                },
                case: case_exhaustive_quick,
                min_classes: &[("group-first-then-or", 100), ("empty-group", 100), ("nested-group", 100), ("group-last", 100), ("consumer-spelled-with-its-full-name", 1000)],
            },
            Section {
                name: "grammar-exhaustive-15",
                plan: |t| match t {
                    Tier::Quick => Plan::Skip,
                    Tier::Thorough => Plan::Exhaustive { count: seqs(true).len() as u64 },
                },
                case: case_exhaustive_thorough,
                min_classes: &[],
            },
            Section {
                name: "random-long",
                plan: |t| match t {
                    Tier::Quick => Plan::Random { cases: 30_000, max_len: 160 },
                    Tier::Thorough => Plan::Random { cases: 1_800_000, max_len: 200 },
                },
                case: case_random,
                min_classes: &[("longer-than-exhaustive-bound", 1000), ("more-than-64-groups-on-one-level", 300)],
            },
            Section {
                name: "re-evaluated",
                plan: |t| match t {
                    Tier::Quick => Plan::Random { cases: 24_000, max_len: 200 },
                    Tier::Thorough => Plan::Random { cases: 1_200_000, max_len: 240 },
                },
                case: case_repeated,
                min_classes: &[("elseif-taken-on-consecutive-visits", 1000), ("decision-changes-between-visits", 5000), ("same-if-line-entered-again-from-inside-its-taken-branch", 1500)],
            },
            Section {
                name: "truthiness",
                plan: |t| match t {
                    Tier::Quick => Plan::Random { cases: 20_000, max_len: 40 },
                    Tier::Thorough => Plan::Random { cases: 1_200_000, max_len: 60 },
                },
                case: case_truthiness,
                min_classes: &[("absent-value", 50), ("falsy-value", 1000), ("truthy-value", 1000), ("absent-value-from-a-function-without-return-value", 20), ("value-through-if-not-and-while-not", 5000)],
            },
        ],
        probes: vec![],
    }
}
