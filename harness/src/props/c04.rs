//! C04 — if / elseif / else / while / for-in behave as properly nested structured blocks.

use crate::engine::*;
use crate::flow::*;
use crate::hz::*;
use serde_json::json;
use std::collections::HashMap;
use std::sync::OnceLock;

pub fn ensure_spellings() {
    static DONE: OnceLock<()> = OnceLock::new();
    DONE.get_or_init(|| {
        let c = sdk_context();
        if let Err(e) = check_spellings(&c.commands) {
            panic!("harness: {}", e);
        }
    });
}

pub struct RunResult {
    pub verdict: Option<Verdict>,
}

/// Runs a program against the model; shared by C04 and C05. `prefix` is the signature prefix.
pub fn run_program(p: &Program, t: &mut Tape, st: &mut Stats, prefix: &str, nt_rule: fn(&Model, &std::collections::HashSet<&'static str>) -> bool) -> Verdict {
    run_program_bounded(p, t, st, prefix, nt_rule, 3000)
}

/// `max_steps`: statements the reference interpreter may execute before the case is discarded
pub fn run_program_bounded(p: &Program, t: &mut Tape, st: &mut Stats, prefix: &str, nt_rule: fn(&Model, &std::collections::HashSet<&'static str>) -> bool, max_steps: usize) -> Verdict {
    ensure_spellings();
    let (_, mut classes) = shape(p);
    let rendered = render(p, t, false);
    if rendered.rs.canonical_keyword {
        classes.insert("canonical-name-keyword");
    }
    if rendered.rs.specific_end {
        classes.insert("block-specific-end");
    }
    if rendered.rs.specific_end && rendered.rs.generic_end {
        classes.insert("mixed-generic-and-specific-end");
    }
    let mut m = Model::new(p, max_steps);
    if max_steps >= 30_000 {
        m.max_call_depth = 450;
    }
    match m.run() {
        Ok(()) => {}
        Err(Stop::Steps) => return Verdict::Discard("model step bound exceeded"),
        Err(Stop::Unconstrained(why)) => {
            st.class("unconstrained-corner-reached");
            return Verdict::Discard(why);
        }
        Err(Stop::Fatal(_)) => return Verdict::Discard("fatal"),
    }
    for c in &m.classes {
        classes.insert(c);
    }
    count_classes(st, &classes);
    // run
    if std::env::var("DSVERIF_PRINT_SCRIPT").is_ok() {
        eprintln!("----- script -----\n{}----- expected trace: {:?}", rendered.text, m.trace.iter().map(|e| e.args.join(" ")).collect::<Vec<_>>());
    }
    hz_reset();
    // fuel proportional to the work the reference interpreter needed (generous factor: every statement costs at
    // most a handful of instruction executions incl. blank lines, end/else lines and nested evaluation)
    let fuel = (30 * m.steps as u64 + 2_000).min(60_000.max(12 * max_steps as u64));
    let out = run_text(&rendered.text, sdk_context(), fuel, None);
    // handles are opaque tokens: map them to the model's array names
    let names: HashMap<String, String> = with_hz(|h| {
        let mut names = HashMap::new();
        for e in h.trace.iter().filter(|e| e.cmd == "emit" && e.args.first().map(|a| a == "0").unwrap_or(false)) {
            if e.args.len() == 3 {
                names.insert(e.args[2].clone(), e.args[1].clone());
            }
        }
        names
    });
    let actual: Vec<Vec<String>> = with_hz(|h| {
        h.trace
            .iter()
            .filter(|e| (e.cmd == "emit" && e.args.first().map(|a| a != "0").unwrap_or(true)) || (e.cmd == "cap" && e.args.first().map(|a| a.starts_with("cap:")).unwrap_or(false)))
            .map(|e| e.args.iter().map(|a| names.get(a).cloned().unwrap_or_else(|| a.clone())).collect())
            .collect()
    });
    let expected: Vec<Vec<String>> = m.trace.iter().map(|e| e.args.clone()).collect();
    let detail = |what: &str, extra: serde_json::Value| json!({"script": rendered.text, "mismatch": what, "detail": extra, "expected_trace": expected, "actual_trace": actual});
    if out.depth_exceeded {
        return fail(&format!("{}/does-not-terminate", prefix), detail("implementation exceeded the nesting limit (runaway nested evaluation) while the reference interpreter terminated", json!(null)));
    }
    if out.fuel_exhausted {
        return fail(&format!("{}/does-not-terminate", prefix), detail("implementation ran out of fuel while the reference interpreter terminated", json!(null)));
    }
    let ctx = match out.result {
        Ok(c) => c,
        Err(e) => return fail(&format!("{}/run-error", prefix), detail("run failed", json!(format!("{:?}", e)))),
    };
    if actual != expected {
        let i = actual.iter().zip(expected.iter()).position(|(a, b)| a != b).unwrap_or(actual.len().min(expected.len()));
        let what = if i < actual.len() && i < expected.len() {
            if actual[i][0] != expected[i][0] {
                "wrong-statement-executed"
            } else {
                "wrong-argument-values"
            }
        } else if actual.len() > expected.len() {
            "extra-statements-executed"
        } else {
            "statements-not-executed"
        };
        return fail(&format!("{}/trace/{}", prefix, what), detail("emit trace differs", json!({"first_difference_at": i})));
    }
    // final variables
    let skip = |k: &str| k.starts_with("arr") || k.chars().all(|c| c.is_ascii_digit()) || m.tainted.contains(k);
    let mv: HashMap<&String, &String> = m.vars.iter().filter(|(k, _)| !skip(k)).collect();
    let av: HashMap<&String, &String> = ctx.variables.iter().filter(|(k, _)| !skip(k)).map(|(k, v)| (k, names.get(v).unwrap_or(v))).collect();
    if mv != av {
        return fail(&format!("{}/final-variables", prefix), detail("final variables differ", json!({"model": mv, "actual": av})));
    }
    let nt = nt_rule(&m, &classes);
    if st.want_sample() && nt {
        let tx = rendered.text.clone();
        let ex = expected.clone();
        st.sample(|| json!({"script": tx, "emit_trace": ex}));
    }
    Verdict::Pass(if nt { Some(fp(&rendered.text)) } else { None })
}

fn nt_c04(_m: &Model, classes: &std::collections::HashSet<&'static str>) -> bool {
    classes.contains("two-block-kinds-nested") && classes.contains("same-block-executed-3-times") || (classes.contains("two-block-kinds-nested") && _m.block_runs.values().any(|r| *r >= 2))
}

fn case_small(t: &mut Tape, st: &mut Stats) -> Verdict {
    let p = gen_program(t, GenCfg { breaks: false, functions: false, failures: false, max_depth: 5, max_stmts: 30, long_loops: false, probe_conditions: true, lib_calls: true });
    run_program(&p, t, st, "C04", nt_c04)
}

fn case_large(t: &mut Tape, st: &mut Stats) -> Verdict {
    let p = gen_program(t, GenCfg { breaks: false, functions: false, failures: false, max_depth: 8, max_stmts: 120, long_loops: false, probe_conditions: false, lib_calls: false });
    run_program(&p, t, st, "C04", nt_c04)
}

/// small programs whose while loops run for tens to hundreds of iterations, also inside other loops
fn case_long_loops(t: &mut Tape, st: &mut Stats) -> Verdict {
    if t.chance(1, 12) {
        // hand-built: the taken branch of an if / elseif / else runs a loop of more than a thousand iterations whose
        // body is a passing if without else, and only then reaches the block's next elseif / else line
        let n = 1025 + t.below(300) as u32;
        let inner_if = if t.flip() {
            Stmt::If(vec![(Cond::Value(Expr::Lit("yes".into())), vec![Stmt::Emit(1, vec![])])], None)
        } else {
            Stmt::If(vec![(Cond::Value(Expr::Lit("0".into())), vec![Stmt::Emit(5, vec![])]), (Cond::Value(Expr::Lit("x1".into())), vec![Stmt::Emit(1, vec![])])], None)
        };
        let looped = Stmt::While(Cond::Tick { neg: false, key: "many".into(), n }, vec![inner_if]);
        let taken = vec![looped, Stmt::Emit(2, vec![Expr::Lit("branch-done".into())])];
        let outer = match t.below(3) {
            0 => Stmt::If(vec![(Cond::Value(Expr::Lit("true".into())), taken)], Some(vec![Stmt::Emit(3, vec![Expr::Lit("else".into())])])),
            1 => Stmt::If(vec![(Cond::Value(Expr::Lit("false".into())), vec![Stmt::Emit(6, vec![])]), (Cond::Value(Expr::Lit("1".into())), taken), (Cond::Value(Expr::Lit("true".into())), vec![Stmt::Emit(7, vec![])])], Some(vec![Stmt::Emit(3, vec![Expr::Lit("else".into())])])),
            _ => Stmt::If(vec![(Cond::Value(Expr::Lit("yes".into())), taken), (Cond::Value(Expr::Lit("true".into())), vec![Stmt::Emit(7, vec![])])], None),
        };
        let p = Program { arrays: vec![], fns: vec![], main: vec![outer, Stmt::Emit(4, vec![Expr::Lit("after".into())])] };
        let v = run_program_bounded(&p, t, st, "C04", |_, _| true, 29_000);
        if matches!(v, Verdict::Pass(_)) {
            st.class("branch-running-over-1024-inner-if-blocks-before-its-else");
        }
        return v;
    }
    let p = gen_program(t, GenCfg { breaks: false, functions: false, failures: false, max_depth: 4, max_stmts: 10, long_loops: true, probe_conditions: false, lib_calls: false });
    run_program_bounded(&p, t, st, "C04", |m, _| m.classes.contains("while-ran-100-times"), 12_000)
}

pub fn property() -> Property {
    Property {
        id: "C04",
        rule: "well-nested programs (AST of emit / set / if-elseif-else / while / for-in, depth <= 5 quick / 8 thorough, empty bodies, zero-iteration loops, loops re-entered many times, and - section long-loops - while loops of 20..250 iterations, also nested in other loops, and hand-built programs in which the taken branch of an if / elseif / else executes 1025..1324 passing inner if blocks before its own next elseif / else line) rendered with a random alias or the canonical name for every keyword occurrence (generic 'end' or block-specific end), random indentation, blank and comment lines; conditions as values, boolean expressions, commands (tick), negated commands (not tock) and - in if / elseif - the capture command, plain or negated, with 1..3 arguments that may be empty, padded with blanks or a blank only, whose received values are part of the compared trace; emit trace (ids and argument values) and final variables compared with a tree-walking interpreter. Non-trivial: >= 2 block kinds nested and some block executed >= 2 times; distinct by script text",
        assumptions: &[
            "only well-nested programs; no goto into or out of blocks; arrays are not mutated during iteration; values are plain words that are not command names",
            "while loops are driven by deterministic tick/tock automata shared (as an algorithm) with the reference interpreter",
        ],
        sections: vec![
            Section {
                name: "programs",
                plan: |t| match t {
                    Tier::Quick => Plan::Random { cases: 160_000, max_len: 600 },
                    Tier::Thorough => Plan::Random { cases: 6_000_000, max_len: 800 },
                },
                case: case_small,
                min_classes: &[("two-block-kinds-nested", 2000), ("zero-iteration-loop", 2000), ("empty-body", 2000), ("canonical-name-keyword", 2000), ("block-specific-end", 2000), ("same-block-executed-3-times", 1000), ("elseif-chain", 2000), ("x-y-x-nesting", 300), ("mixed-generic-and-specific-end", 2000), ("condition-command-argument-padded-with-blanks", 2000), ("nested-script-command-inside-a-loop-body", 2000)],
            },
            Section {
                name: "large-programs",
                plan: |t| match t {
                    Tier::Quick => Plan::Random { cases: 16_000, max_len: 2500 },
                    Tier::Thorough => Plan::Random { cases: 800_000, max_len: 3000 },
                },
                case: case_large,
                min_classes: &[("depth-4-or-more", 200)],
            },
            Section {
                name: "long-loops",
                plan: |t| match t {
                    Tier::Quick => Plan::Random { cases: 14_000, max_len: 400 },
                    Tier::Thorough => Plan::Random { cases: 300_000, max_len: 500 },
                },
                case: case_long_loops,
                min_classes: &[("while-ran-100-times", 300), ("while-ran-100-times-inside-a-loop-iteration", 50), ("branch-running-over-1024-inner-if-blocks-before-its-else", 300)],
            },
        ],
        probes: vec![],
    }
}
