//! C10 — command errors are reported, positioned and survivable (or fatal when asked).

use crate::engine::*;
use crate::flow::*;
use crate::hz::*;
use crate::props::c04::ensure_spellings;
use crate::props::c16::exec;
use duckscript::types::command::CommandResult;
use duckscript::types::error::ScriptError;
use serde_json::json;
use std::cell::RefCell;
use std::collections::HashMap;

const LIB_FAILS: &[&str] = &["array_get nohandle 0", "array_pop nohandle", "substring abc 9", "map_get", "array_length nohandle", "calc", "array_join nohandle ,", "assert_error planted-assert-error", "assert_error"];

thread_local! {
    static LIB: RefCell<Option<HashMap<String, String>>> = RefCell::new(None);
}

/// The message each failing library command reports when called directly (differential reference).
fn lib_messages() -> HashMap<String, String> {
    LIB.with(|l| {
        let mut l = l.borrow_mut();
        if l.is_none() {
            let mut m = HashMap::new();
            for c in LIB_FAILS {
                let mut ctx = sdk_context();
                let parts: Vec<String> = c.split(' ').map(|s| s.to_string()).collect();
                match exec(&mut ctx, &parts[0], &parts[1..]) {
                    CommandResult::Error(e) => {
                        m.insert(c.to_string(), e);
                    }
                    other => panic!("harness: '{}' is expected to report an error when called directly, got {}", c, crate::props::c16::show(&other)),
                }
            }
            *l = Some(m);
        }
        l.clone().unwrap()
    })
}

fn case_with(t: &mut Tape, st: &mut Stats, max_stmts: usize) -> Verdict {
    ensure_spellings();
    let p = gen_program(t, GenCfg { breaks: false, functions: true, failures: true, max_depth: 4, max_stmts, long_loops: false, probe_conditions: false, lib_calls: false });
    let mut rendered = render(&p, t, true);
    // one script in five has CRLF line ends (line numbers count lines, not characters)
    if t.chance(1, 5) {
        rendered.text = rendered.text.replace('\n', "\r\n");
        st.class("script-with-crlf-line-ends");
    }
    let file_mode = t.chance(1, 4);
    let path = if file_mode { Some(format!("{}/c10-{:?}.ds", scratch_root(), std::thread::current().id())) } else { None };
    let mut m = Model::new(&p, 3000);
    m.line_of = rendered.line_of.clone();
    m.script_source = path.clone().unwrap_or_default();
    m.lib_messages = lib_messages();
    let fatal = match m.run() {
        Ok(()) => None,
        Err(Stop::Fatal(id)) => Some(id),
        Err(Stop::Steps) => return Verdict::Discard("model step bound exceeded"),
        Err(Stop::Unconstrained(why)) => return Verdict::Discard(why),
    };
    if m.failures.is_empty() {
        return Verdict::Discard("no failing command executed");
    }
    if m.failures.len() >= 2 {
        st.class("several-errors-in-sequence");
    }
    if fatal.is_some() {
        st.class("exit_on_error-fatal");
        if m.classes.contains("set_error-while-exit_on_error-is-on") {
            st.class("fatal-error-after-set_error-in-exit_on_error-mode");
        }
    }
    if file_mode {
        st.class("file-mode");
    }
    if rendered.rs.exit_on_error_other_spelling {
        st.class("exit_on_error-state-spelled-other-than-true-false");
    }
    if m.classes.contains("direct-recursion") || m.max_depth_seen >= 1 {
        st.class("error-with-function-calls-around");
    }
    hz_reset();
    let fuel = (30 * m.steps as u64 + 3_000).min(80_000);
    let out = match &path {
        Some(pth) => {
            std::fs::write(pth, &rendered.text).expect("write");
            let o = run_file(pth, sdk_context(), fuel, None);
            let _ = std::fs::remove_file(pth);
            o
        }
        None => run_text(&rendered.text, sdk_context(), fuel, None),
    };
    let names: HashMap<String, String> = with_hz(|h| {
        let mut names = HashMap::new();
        for e in h.trace.iter().filter(|e| e.cmd == "emit" && e.args.first().map(|a| a == "0").unwrap_or(false)) {
            if e.args.len() == 3 {
                names.insert(e.args[2].clone(), e.args[1].clone());
            }
        }
        names
    });
    let actual: Vec<Vec<String>> = with_hz(|h| {
        h.trace
            .iter()
            .filter(|e| e.cmd == "emit" && e.args.first().map(|a| a != "0").unwrap_or(true))
            .map(|e| e.args.iter().map(|a| names.get(a).cloned().unwrap_or_else(|| a.clone())).collect())
            .collect()
    });
    let expected: Vec<Vec<String>> = m.trace.iter().map(|e| e.args.clone()).collect();
    let detail = |what: &str, extra: serde_json::Value| json!({"script": rendered.text, "file_mode": file_mode, "mismatch": what, "detail": extra, "expected_trace": expected, "actual_trace": actual});
    if out.fuel_exhausted || out.depth_exceeded {
        return fail("C10/does-not-terminate", detail("fuel/nesting exhausted", json!(null)));
    }
    if actual != expected {
        let i = actual.iter().zip(expected.iter()).position(|(a, b)| a != b).unwrap_or(actual.len().min(expected.len()));
        let what = if i < actual.len() && i < expected.len() && actual[i].get(1).map(|s| s == "probe").unwrap_or(false) && expected[i].get(1).map(|s| s == "probe").unwrap_or(false) && actual[i][0] == expected[i][0] {
            let (a, e) = (&actual[i], &expected[i]);
            if a.get(2) != e.get(2) {
                "last-error-message"
            } else if a.get(3) != e.get(3) {
                "last-error-line"
            } else if a.get(4) != e.get(4) {
                "last-error-source"
            } else {
                "output-variable-not-false"
            }
        } else {
            "flow-after-error"
        };
        return fail(&format!("C10/{}", what), detail("trace differs", json!({"first_difference_at": i})));
    }
    match (&out.result, fatal) {
        (Ok(ctx), None) => {
            let skip = |k: &str| k.starts_with("arr") || k.chars().all(|c| c.is_ascii_digit()) || m.tainted.contains(k);
            let mv: HashMap<&String, &String> = m.vars.iter().filter(|(k, _)| !skip(k)).collect();
            let av: HashMap<&String, &String> = ctx.variables.iter().filter(|(k, _)| !skip(k)).map(|(k, v)| (k, names.get(v).unwrap_or(v))).collect();
            if mv != av {
                return fail("C10/final-variables", detail("final variables differ", json!({"model": mv, "actual": av})));
            }
        }
        (Err(ScriptError::Runtime(msg, Some(meta))), Some(id)) => {
            let line = rendered.line_of.get(&id).copied();
            if meta.line != line {
                return fail("C10/fatal-error-line", detail("failure line differs", json!({"model": line, "actual": meta.line})));
            }
            let want = m.last_error.as_ref().map(|(m, _)| m.clone()).unwrap_or_default();
            if *msg != want {
                return fail("C10/fatal-error-message", detail("failure message differs", json!({"model": want, "actual": msg})));
            }
            if meta.source != path {
                return fail("C10/fatal-error-source", detail("failure source differs", json!({"model": path, "actual": meta.source})));
            }
        }
        (r, f) => {
            let rs = match r {
                Ok(_) => "Ok".to_string(),
                Err(e) => format!("{:?}", e),
            };
            return fail("C10/outcome", detail("outcome differs", json!({"model_fatal_statement": f, "actual": rs})));
        }
    }
    let nt = m.failures.len() >= 2 || m.max_depth_seen >= 1;
    if st.want_sample() && nt {
        let tx = rendered.text.clone();
        st.sample(|| json!({"script": tx}));
    }
    Verdict::Pass(if nt { Some(fp(&(&rendered.text, file_mode))) } else { None })
}

/// The same programs with the function definitions in an included file: errors in the including file after the
/// directive and errors inside included code must report their own file and line.
fn case_included(t: &mut Tape, st: &mut Stats) -> Verdict {
    ensure_spellings();
    let p = gen_program(t, GenCfg { breaks: false, functions: true, failures: true, max_depth: 4, max_stmts: 40, long_loops: false, probe_conditions: false, lib_calls: false });
    let dir = format!("{}/c10inc-{:?}", scratch_root(), std::thread::current().id()).replace(['(', ')'], "");
    let _ = std::fs::create_dir_all(&dir);
    let main_path = format!("{}/main.ds", dir);
    let lib_path = format!("{}/lib.ds", dir);
    // the including script is a file, or a text (no source of its own) that names the library by its full path
    let text_mode = t.chance(1, 2);
    let rendered = if text_mode { render_split(&p, t, true, &format!("!include_files {}", lib_path)) } else { render_split(&p, t, true, "!include_files ./lib.ds") };
    let main_source = if text_mode { String::new() } else { main_path.clone() };
    let mut m = Model::new(&p, 3000);
    m.line_of = rendered.line_of.clone();
    m.script_source = main_source.clone();
    for (id, f) in &rendered.file_of {
        m.source_of.insert(*id, if *f == 1 { lib_path.clone() } else { main_source.clone() });
    }
    m.lib_messages = lib_messages();
    let fatal = match m.run() {
        Ok(()) => None,
        Err(Stop::Fatal(id)) => Some(id),
        Err(Stop::Steps) => return Verdict::Discard("model step bound exceeded"),
        Err(Stop::Unconstrained(why)) => return Verdict::Discard(why),
    };
    if m.failures.is_empty() {
        return Verdict::Discard("no failing command executed");
    }
    let in_lib = m.failures.iter().any(|id| rendered.file_of.get(id) == Some(&1));
    let in_main = m.failures.iter().any(|id| rendered.file_of.get(id) == Some(&0));
    if in_lib {
        st.class("error-inside-included-file");
    }
    if in_main {
        st.class("error-in-including-file-after-directive");
    }
    if text_mode && in_lib && in_main {
        // an error without a source after one with a source
        let firsts: Vec<bool> = m.failures.iter().map(|id| rendered.file_of.get(id) == Some(&1)).collect();
        if firsts.windows(2).any(|w| w[0] && !w[1]) {
            st.class("error-in-text-after-error-in-included-file");
        }
    }
    std::fs::write(&main_path, &rendered.main).expect("write");
    std::fs::write(&lib_path, &rendered.lib).expect("write");
    hz_reset();
    let fuel = (30 * m.steps as u64 + 3_000).min(80_000);
    let out = if text_mode { run_text(&rendered.main, sdk_context(), fuel, None) } else { run_file(&main_path, sdk_context(), fuel, None) };
    let _ = std::fs::remove_dir_all(&dir);
    let names: HashMap<String, String> = with_hz(|h| {
        let mut names = HashMap::new();
        for e in h.trace.iter().filter(|e| e.cmd == "emit" && e.args.first().map(|a| a == "0").unwrap_or(false)) {
            if e.args.len() == 3 {
                names.insert(e.args[2].clone(), e.args[1].clone());
            }
        }
        names
    });
    // the include directive resolves and canonicalises the library path: compare sources by canonical path
    let canon = |s: &String| std::fs::canonicalize(s).map(|p| p.to_string_lossy().to_string()).unwrap_or_else(|_| s.clone());
    let lib_c = canon(&lib_path);
    let actual: Vec<Vec<String>> = with_hz(|h| {
        h.trace
            .iter()
            .filter(|e| e.cmd == "emit" && e.args.first().map(|a| a != "0").unwrap_or(true))
            .map(|e| e.args.iter().map(|a| names.get(a).cloned().unwrap_or_else(|| if *a == lib_c { lib_path.clone() } else { a.clone() })).collect())
            .collect()
    });
    let expected: Vec<Vec<String>> = m.trace.iter().map(|e| e.args.clone()).collect();
    let detail = |what: &str, extra: serde_json::Value| json!({"main.ds": rendered.main, "lib.ds": rendered.lib, "mismatch": what, "detail": extra, "expected_trace": expected, "actual_trace": actual});
    if out.fuel_exhausted || out.depth_exceeded {
        return fail("C10/included/does-not-terminate", detail("fuel/nesting exhausted", json!(null)));
    }
    if actual != expected {
        let i = actual.iter().zip(expected.iter()).position(|(a, b)| a != b).unwrap_or(actual.len().min(expected.len()));
        let what = if i < actual.len() && i < expected.len() && actual[i].len() == expected[i].len() && actual[i].get(1).map(|s| s == "probe").unwrap_or(false) && actual[i][0] == expected[i][0] {
            if actual[i].get(3) != expected[i].get(3) {
                "last-error-line"
            } else if actual[i].get(4) != expected[i].get(4) {
                "last-error-source"
            } else {
                "last-error-message-or-output"
            }
        } else {
            "flow-after-error"
        };
        return fail(&format!("C10/included/{}", what), detail("trace differs", json!({"first_difference_at": i})));
    }
    match (&out.result, fatal) {
        (Ok(_), None) => {}
        (Err(ScriptError::Runtime(_, Some(meta))), Some(id)) => {
            let line = rendered.line_of.get(&id).copied();
            let in_lib = rendered.file_of.get(&id) == Some(&1);
            let want_src = if in_lib { lib_c.clone() } else { main_source.clone() };
            let src_ok = if !in_lib && text_mode { meta.source.is_none() } else { meta.source.as_ref().map(canon) == Some(canon(&want_src)) };
            if meta.line != line || !src_ok {
                return fail("C10/included/fatal-error-position", detail("failure position differs", json!({"model": [line, want_src], "actual": [meta.line, meta.source]})));
            }
        }
        (r, f) => {
            let rs = match r {
                Ok(_) => "Ok".to_string(),
                Err(e) => format!("{:?}", e),
            };
            return fail("C10/included/outcome", detail("outcome differs", json!({"model_fatal_statement": f, "actual": rs})));
        }
    }
    Verdict::Pass(Some(fp(&(&rendered.main, &rendered.lib))))
}


/// (two-runs) the error mode and the last error live in the context: a second script run on the context that a first
/// run returned (however the first run ended - last line, `exit`, `exit 0`) sees them.
fn case_two_runs(t: &mut Tape, st: &mut Stats) -> Verdict {
    let mode_on = t.flip();
    let first_error = if !mode_on && t.flip() { Some(*t.pick_ref(&["first", "earlier problem", "x y"])) } else { None };
    let ending = *t.pick_ref(&["", "exit\n", "exit 0\n", "exit 0\nemit never\n", "exit\nemit never\n"]);
    let mut run1 = String::from("a = set 1\n");
    if mode_on {
        run1.push_str(&format!("exit_on_error {}\n", t.pick(&["true", "1", "yes", "TRUE"])));
    } else if t.flip() {
        run1.push_str(&format!("exit_on_error {}\n", t.pick(&["false", "0", "no"])));
    }
    if let Some(m) = first_error {
        run1.push_str(&format!("e1 = trigger_error \"{}\"\n", m));
    }
    run1.push_str(ending);
    let second_msg = *t.pick_ref(&["second", "later problem"]);
    let run2 = format!("m0 = get_last_error\nemit m0 ${{m0}}\ne = trigger_error \"{}\"\nemit after ${{e}}\nm = get_last_error\nemit m ${{m}}\n", second_msg);
    st.class(if ending.is_empty() { "first-run-reaches-its-last-line" } else { "first-run-ends-with-exit" });
    hz_reset();
    let o1 = run_text(&run1, sdk_context(), 5_000, None);
    let d = |what: &str, extra: serde_json::Value| json!({"first_script": run1, "second_script": run2, "mismatch": what, "detail": extra});
    let ctx = match o1.result {
        Ok(c) => c,
        Err(e) => return fail("C10/two-runs/first-run-failed", d("the first run must succeed", json!(format!("{:?}", e)))),
    };
    hz_reset();
    let o2 = run_text(&run2, ctx, 5_000, None);
    let trace: Vec<Vec<String>> = with_hz(|h| h.trace.iter().filter(|e| e.cmd == "emit").map(|e| e.args.clone()).collect());
    // no error so far: the variable stays undefined and the written argument ${m0} is received as an empty one
    let m0: Vec<String> = vec!["m0".into(), first_error.unwrap_or("").to_string()];
    if trace.first() != Some(&m0) {
        return fail("C10/two-runs/last-error-of-the-first-run", d("get_last_error at the start of the second run", json!({"expected": m0, "got": trace.first()})));
    }
    if mode_on {
        match &o2.result {
            Err(ScriptError::Runtime(msg, Some(meta))) if msg == second_msg && meta.line == Some(3) && trace.len() == 1 => {}
            other => {
                let r = match other {
                    Ok(_) => "Ok".to_string(),
                    Err(e) => format!("{:?}", e),
                };
                return fail("C10/two-runs/exit_on_error-mode-not-kept", d("exit_on_error was turned on in the first run: the error of the second run must end it", json!({"result": r, "emits": trace})));
            }
        }
    } else {
        let want = vec![m0.clone(), vec!["after".to_string(), "false".to_string()], vec!["m".to_string(), second_msg.to_string()]];
        if o2.result.is_err() || trace != want {
            return fail("C10/two-runs/survivable-error", d("mode off: the second run goes on after its error", json!({"expected": want, "got": trace, "ok": o2.result.is_ok()})));
        }
    }
    Verdict::Pass(Some(fp(&(&run1, &run2))))
}


/// (messages) an error message is data: whatever text a failing command reports - delivered here through a variable -
/// is what get_last_error returns and what the failure carries once exit_on_error is on.
fn case_messages(t: &mut Tape, st: &mut Stats) -> Verdict {
    let mut msg = match t.below(3) {
        0 => t.pick(&["cost \\${price}", "100\\% done", "C:\\%TEMP%\\x", "a\\$b", "\\${", "${price}", "%{price}", "50% off", "a#b", "say \"hi\"", " padded ", "é😀", "back\\slash"]).to_string(),
        _ => {
            let mut s = crate::gen::hazard_string(t, 4);
            s.retain(|c| c != '\0');
            s
        }
    };
    if msg.is_empty() {
        msg = "m".to_string();
    }
    if msg.contains("\\$") || msg.contains("\\%") {
        st.class("message-with-a-backslash-before-dollar-or-percent");
    }
    let fatal = t.flip();
    let script = format!("price = set 7\nm = put 0\n{}e = trigger_error ${{m}}\ng = get_last_error\nemit got ${{g}}\n", if fatal { "exit_on_error true\n" } else { "" });
    hz_reset();
    with_hz(|h| h.side = vec![msg.clone()]);
    let out = run_text(&script, sdk_context(), 5_000, None);
    let d = |what: &str, extra: serde_json::Value| json!({"script": script, "message": msg, "mismatch": what, "detail": extra});
    if fatal {
        match &out.result {
            Err(ScriptError::Runtime(m, Some(meta))) if *m == msg && meta.line == Some(4) => Verdict::Pass(Some(fp(&(&msg, fatal)))),
            other => fail("C10/messages/fatal-error-message", d("the failure must carry the message and line 4", json!(match other { Ok(_) => "Ok".to_string(), Err(e) => format!("{:?}", e) }))),
        }
    } else {
        let got: Vec<Vec<String>> = with_hz(|h| h.trace.iter().filter(|e| e.cmd == "emit").map(|e| e.args.clone()).collect());
        match &out.result {
            Ok(c) if c.variables.get("g") == Some(&msg) && c.variables.get("e").map(|s| s.as_str()) == Some("false") && got == vec![vec!["got".to_string(), msg.clone()]] => Verdict::Pass(Some(fp(&(&msg, fatal)))),
            Ok(c) => fail("C10/messages/last-error-message", d("get_last_error must return the message", json!({"get_last_error": c.variables.get("g"), "output": c.variables.get("e"), "emitted": got}))),
            Err(e) => fail("C10/messages/run-error", d("run failed", json!(format!("{:?}", e)))),
        }
    }
}

fn case_q(t: &mut Tape, st: &mut Stats) -> Verdict {
    case_with(t, st, 40)
}
fn case_t(t: &mut Tape, st: &mut Stats) -> Verdict {
    case_with(t, st, 120)
}

pub fn property() -> Property {
    Property {
        id: "C10",
        rule: "C04/C05 programs with failing commands planted at arbitrary statement positions (top level, function bodies, loop bodies, branches): trigger_error with plain and syntax-bearing messages (${..}, %, #) and library commands that fail on their own (array_get / array_pop / array_length on a missing handle, substring out of range, map_get and calc without arguments, the script-implemented array_join), with and without output variable, several in sequence, exit_on_error toggled mid-script (the state written as any truthy / falsy spelling), set_error statements in between (they replace the stored error and nothing else), run from text and from file; (included) the same programs with the function definitions in an included file, the including script being a file or a text without a source of its own. (messages) hazard texts incl. backslash before '$' / '%' reported by trigger_error through a variable: get_last_error returns the text, and with exit_on_error on the failure carries it; one script in five of the program sections has CRLF line ends; (two-runs) a second script run on the context returned by a first run - which turned exit_on_error on or off and / or recorded an error, and ended at its last line or by exit / exit 0 - must see the mode and the last error of the first. Each failing line is followed by get_last_error / get_last_error_line / get_last_error_source reads and an emit. Oracle: reference interpreter (output variable 'false', latest error's message/line/source, continue with the next instruction; once exit_on_error is on the first error ends the run with Err(message, line, source)); library messages are taken from a direct call of the same command. Non-trivial: >= 2 errors or an error with function calls around; distinct by (script, mode)",
        assumptions: &[
            "failing commands are not planted in condition position, and programs that reach one inside a function called in condition position are discarded",
            "expected message of a library error = the message of a direct call of the same command on a fresh context",
        ],
        sections: vec![
            Section {
                name: "programs",
                plan: |t| match t {
                    Tier::Quick => Plan::Random { cases: 300_000, max_len: 700 },
                    Tier::Thorough => Plan::Random { cases: 3_000_000, max_len: 900 },
                },
                case: case_q,
                min_classes: &[("several-errors-in-sequence", 3000), ("exit_on_error-fatal", 1000), ("file-mode", 2000), ("error-with-function-calls-around", 3000), ("exit_on_error-state-spelled-other-than-true-false", 3000), ("fatal-error-after-set_error-in-exit_on_error-mode", 80), ("script-with-crlf-line-ends", 10000)],
            },
            Section {
                name: "included",
                plan: |t| match t {
                    Tier::Quick => Plan::Random { cases: 40_000, max_len: 700 },
                    Tier::Thorough => Plan::Random { cases: 800_000, max_len: 900 },
                },
                case: case_included,
                min_classes: &[("error-inside-included-file", 1000), ("error-in-including-file-after-directive", 1000), ("error-in-text-after-error-in-included-file", 100)],
            },
            Section {
                name: "messages",
                plan: |t| match t {
                    Tier::Quick => Plan::Random { cases: 30_000, max_len: 40 },
                    Tier::Thorough => Plan::Random { cases: 600_000, max_len: 40 },
                },
                case: case_messages,
                min_classes: &[("message-with-a-backslash-before-dollar-or-percent", 2000)],
            },
            Section {
                name: "two-runs",
                plan: |t| match t {
                    Tier::Quick => Plan::Random { cases: 4_000, max_len: 30 },
                    Tier::Thorough => Plan::Random { cases: 40_000, max_len: 30 },
                },
                case: case_two_runs,
                min_classes: &[("first-run-ends-with-exit", 1000), ("first-run-reaches-its-last-line", 300)],
            },
            Section {
                name: "large-programs",
                plan: |t| match t {
                    Tier::Quick => Plan::Skip,
                    Tier::Thorough => Plan::Random { cases: 400_000, max_len: 2500 },
                },
                case: case_t,
                min_classes: &[],
            },
        ],
        probes: vec![],
    }
}
