//! C02 — variable binding is verbatim, single-pass, never changes the argument count.

use crate::engine::*;
use crate::gen::*;
use crate::hz::*;
use duckscript::runner;
use duckscript::types::instruction::{Instruction, InstructionMetaInfo, InstructionType, ScriptInstruction};
use serde_json::json;
use std::collections::HashMap;

#[derive(Clone, Debug)]
enum Piece {
    Lit(String),
    Var(String),
    Esc(String),
}

#[derive(Clone, Debug)]
enum Tmpl {
    Pieces(Vec<Piece>),
    Spread(String),
}

const ESC_MARK: char = '\u{e000}';

const NAME_POOL: &[&str] = &["a", "b", "v", "x", "name", "n1", "", "é", "a.b", "a::b", "a-b", "A", "日", "a$b", "a{b", "a\"b", "a#b", "$", "%", "{", "a%b", "😀", ":", "!", "'", "page\u{c}2", "k\u{b}1", "x\u{a0}y", "m\u{2003}n"];

fn var_name(t: &mut Tape) -> String {
    if t.chance(1, 40) {
        // a long name: 40..400 characters (no length limit is documented)
        let unit = *t.pick_ref(&["a", "k9", "日", "é_", "long.name::"]);
        let n = 40 + t.below(360);
        let mut s = String::new();
        while s.chars().count() < n {
            s.push_str(unit);
        }
        return s;
    }
    if t.chance(5, 6) {
        t.pick(NAME_POOL).to_string()
    } else {
        let mut s = hazard_string(t, 3);
        s.retain(|c| !c.is_whitespace() && c != '=' && c != '}' && c != '\\' && c != ESC_MARK);
        let s: String = s.chars().take(12).collect();
        // a name never contains the two-character openers themselves (see DESIGN.md C02 "Out")
        let mut s = s;
        while s.contains("${") || s.contains("%{") {
            s = s.replace("${", "$").replace("%{", "%");
        }
        s
    }
}

fn literal(t: &mut Tape) -> String {
    let mut s = hazard_string(t, 4);
    s.retain(|c| c != '$' && c != '%' && c != '\\' && c != ESC_MARK);
    s
}

fn value(t: &mut Tape, names: &[String]) -> String {
    match t.weighted(&[4, 3, 2]) {
        0 => {
            let mut s = hazard_string(t, 5);
            s.retain(|c| c != ESC_MARK);
            if t.chance(1, 60) && !s.is_empty() {
                // a long value: the unit repeated up to 4..70 KiB
                let span = if t.chance(1, 4) { 66_000 } else { 5_000 };
                let target = 4_000 + t.below(span);
                let unit = s.clone();
                while s.len() < target {
                    s.push_str(&unit);
                }
            }
            s
        }
        1 => {
            // looks like syntax, referring to names that exist
            let n = if names.is_empty() { "x".to_string() } else { t.pick_ref(names).clone() };
            let form = t.below(8);
            match form {
                0 => format!("${{{}}}", n),
                1 => format!("%{{{}}}", n),
                2 => format!("\\${{{}}}", n),
                3 => format!("\"{} y\"", n),
                4 => format!("# {}", n),
                5 => format!("{}\\", n),
                6 => format!(" {} ", n),
                _ => format!("a ${{{}}} %{{{}}} b", n, n),
            }
        }
        _ => t.pick(&["", " ", "  ", "\n", "\t", "\r\n", "\"", "\\", "#", "$", "%", "${", "%{", "}", "a b", "  a  b  "]).to_string(),
    }
}

fn spread_value(t: &mut Tape, st: &mut Stats) -> Option<String> {
    match t.weighted(&[5, 1, 1, 1]) {
        0 => {
            // one spread value in forty has hundreds of words
            let n = if t.chance(1, 40) {
                st.class("spread-of-over-100-words");
                101 + t.below(600)
            } else {
                t.len(5)
            };
            let mut s = String::new();
            if t.chance(1, 4) {
                s.push_str(&" ".repeat(1 + t.below(3)));
            }
            let mut words = 0;
            for i in 0..n {
                let mut w = hazard_string(t, 3);
                w.retain(|c| c != ' ' && c != '#' && c != ESC_MARK);
                while w.starts_with('"') {
                    w.remove(0);
                }
                if w.is_empty() {
                    w = "w".to_string();
                }
                if w.starts_with('\\') {
                    st.class("spread-word-starts-with-backslash");
                }
                if i > 0 {
                    s.push_str(&" ".repeat(1 + t.below(3)));
                }
                s.push_str(&w);
                words += 1;
            }
            if t.chance(1, 4) {
                s.push_str(&" ".repeat(1 + t.below(3)));
            }
            if words == 0 {
                st.class("spread-0-words");
            }
            Some(s)
        }
        1 => {
            st.class("spread-0-words");
            Some(String::new())
        }
        2 => {
            st.class("spread-0-words");
            st.class("spread-spaces-only");
            Some(" ".repeat(1 + t.below(4)))
        }
        _ => {
            st.class("spread-0-words");
            st.class("spread-undefined");
            None
        }
    }
}

struct Case {
    vars: Vec<(String, String)>,
    tmpls: Vec<Tmpl>,
    nontrivial: bool,
}

fn gen_case(t: &mut Tape, st: &mut Stats) -> Case {
    let nn = 1 + t.len(5);
    let mut names: Vec<String> = vec![];
    for _ in 0..nn {
        let n = var_name(t);
        if !names.contains(&n) {
            names.push(n);
        }
    }
    let mut vars: Vec<(String, String)> = vec![];
    let mut nontrivial = false;
    let mut spread_names: Vec<String> = vec![];
    // decide templates first so that spread variables get spread-shaped values
    // one case in fifty has many arguments (20..120) instead of 1..8
    let many = t.chance(1, 50);
    let na = if many { 20 + t.below(101) } else { 1 + t.len(7) };
    if many {
        st.class("twenty-or-more-arguments");
    }
    let mut tmpls = vec![];
    for _ in 0..na {
        if t.chance(1, 5) {
            let n = t.pick_ref(&names).clone();
            if !spread_names.contains(&n) {
                spread_names.push(n.clone());
            }
            tmpls.push(Tmpl::Spread(n));
        } else {
            let np = t.len(4);
            let mut ps = vec![];
            for _ in 0..np {
                match t.weighted(&[3, 4, 1]) {
                    0 => {
                        let l = literal(t);
                        if !l.is_empty() {
                            ps.push(Piece::Lit(l))
                        }
                    }
                    1 => ps.push(Piece::Var(t.pick_ref(&names).clone())),
                    _ => {
                        st.class("escaped-reference");
                        ps.push(Piece::Esc(t.pick_ref(&names).clone()))
                    }
                }
            }
            tmpls.push(Tmpl::Pieces(ps));
        }
    }
    for n in &names {
        if spread_names.contains(n) {
            match spread_value(t, st) {
                Some(v) => {
                    let words = v.split(' ').filter(|w| !w.is_empty()).count();
                    if words != 1 {
                        nontrivial = true;
                    }
                    vars.push((n.clone(), v))
                }
                None => {
                    nontrivial = true;
                }
            }
        } else if t.chance(3, 4) {
            let v = value(t, &names);
            if v.contains("${") || v.contains("%{") {
                st.class("value-looks-like-expansion");
            }
            if v.contains('"') || v.contains('#') || v.contains('\\') {
                st.class("value-with-quote-hash-backslash");
            }
            if v.len() > 4096 {
                st.class("value-longer-than-4096-bytes");
            }
            if v.chars().any(|c| !c.is_ascii_alphanumeric()) {
                nontrivial = true;
            }
            vars.push((n.clone(), v));
        } else {
            st.class("undefined-name");
        }
        if n.is_empty() {
            st.class("empty-name");
        }
        if n.len() > 128 {
            st.class("name-longer-than-128-bytes");
        }
    }
    Case { vars, tmpls, nontrivial }
}

/// The reference expander (README "Using Variables - Binding / Spread Binding").
fn reference(tmpls: &[Tmpl], vars: &HashMap<String, String>) -> Vec<String> {
    let mut out = vec![];
    for t in tmpls {
        match t {
            Tmpl::Pieces(ps) => {
                let mut s = String::new();
                for p in ps {
                    match p {
                        Piece::Lit(l) => s.push_str(l),
                        Piece::Var(n) => {
                            if let Some(v) = vars.get(n) {
                                s.push_str(v)
                            }
                        }
                        Piece::Esc(n) => {
                            s.push_str("${");
                            s.push_str(n);
                            s.push('}');
                        }
                    }
                }
                out.push(s);
            }
            Tmpl::Spread(n) => {
                if let Some(v) = vars.get(n) {
                    for w in v.split(' ') {
                        if !w.is_empty() {
                            out.push(w.to_string());
                        }
                    }
                }
            }
        }
    }
    out
}

/// The instruction-level argument text of a template; `mark` is put in place of the escaping backslash.
fn arg_text(t: &Tmpl, mark: char) -> String {
    match t {
        Tmpl::Spread(n) => format!("%{{{}}}", n),
        Tmpl::Pieces(ps) => {
            let mut s = String::new();
            for p in ps {
                match p {
                    Piece::Lit(l) => s.push_str(l),
                    Piece::Var(n) => {
                        s.push_str("${");
                        s.push_str(n);
                        s.push('}');
                    }
                    Piece::Esc(n) => {
                        s.push(mark);
                        s.push_str("${");
                        s.push_str(n);
                        s.push('}');
                    }
                }
            }
            s
        }
    }
}

fn signature(c: &Case, expected: &[String], got: &[String]) -> String {
    let has_spread = c.tmpls.iter().any(|t| matches!(t, Tmpl::Spread(_)));
    let what = if expected.len() != got.len() { "count" } else { "text" };
    format!("C02/{}/{}", what, if has_spread { "with-spread" } else { "no-spread" })
}

fn describe(c: &Case) -> serde_json::Value {
    json!({
        "arguments_as_written": c.tmpls.iter().map(|t| arg_text(t, '\\')).collect::<Vec<_>>(),
        "variables": c.vars.iter().map(|(k, v)| json!([k, v])).collect::<Vec<_>>(),
    })
}

/// One template is a spread of a value that cannot be split into words (an unclosed quote). What such a spread
/// contributes is not documented; what the templates before and after it contribute is: they are bound on their own.
fn case_unsplittable_spread(t: &mut Tape, st: &mut Stats) -> Verdict {
    let mut c = gen_case(t, st);
    let p = t.below(c.tmpls.len() + 1);
    let bad = t.pick(&["say \"hello", "\"", "a \"b c", "x \"unterminated tail ", "\"open word"]).to_string();
    c.tmpls.insert(p, Tmpl::Spread("zzbad".to_string()));
    c.vars.retain(|(k, _)| k != "zzbad");
    c.vars.push(("zzbad".to_string(), bad));
    let vars: HashMap<String, String> = c.vars.iter().cloned().collect();
    let before = reference(&c.tmpls[..p], &vars);
    let after = reference(&c.tmpls[p + 1..], &vars);
    let mut si = ScriptInstruction::new();
    si.command = Some("cap".to_string());
    si.arguments = Some(c.tmpls.iter().map(|t| arg_text(t, '\\')).collect());
    let ins = Instruction { meta_info: InstructionMetaInfo::new(), instruction_type: InstructionType::Script(si) };
    hz_reset();
    let mut ctx = bare_context();
    let mut variables = vars.clone();
    let (mut env, _o) = make_env(None);
    let _ = runner::run_instruction(&mut ctx.commands, &mut variables, &mut ctx.state, &vec![], ins, 0, &mut env);
    let got = with_hz(|h| h.trace.last().map(|e| e.args.clone()));
    st.class("spread-of-a-value-that-cannot-be-split");
    if !after.is_empty() {
        st.class("templates-after-a-spread-that-cannot-be-split");
    }
    match got {
        None => fail("C02/not-invoked", describe(&c)),
        Some(got) => {
            let ok = got.len() >= before.len() + after.len() && got[..before.len()] == before[..] && got[got.len() - after.len()..] == after[..];
            if ok {
                Verdict::Pass(if after.is_empty() { None } else { Some(fp(&(format!("{:?}", c.tmpls), &c.vars))) })
            } else {
                let mut d = describe(&c);
                d["expected_before_the_spread"] = json!(before);
                d["expected_after_the_spread"] = json!(after);
                d["received"] = json!(got);
                fail("C02/neighbours-of-an-unsplittable-spread", d)
            }
        }
    }
}

fn case_direct(t: &mut Tape, st: &mut Stats) -> Verdict {
    if t.chance(1, 12) {
        return case_unsplittable_spread(t, st);
    }
    let c = gen_case(t, st);
    let vars: HashMap<String, String> = c.vars.iter().cloned().collect();
    let expected = reference(&c.tmpls, &vars);
    let mut si = ScriptInstruction::new();
    si.command = Some("cap".to_string());
    si.arguments = Some(c.tmpls.iter().map(|t| arg_text(t, '\\')).collect());
    let ins = Instruction {
        meta_info: InstructionMetaInfo::new(),
        instruction_type: InstructionType::Script(si),
    };
    hz_reset();
    let mut ctx = bare_context();
    let mut variables = vars.clone();
    let (mut env, _o) = make_env(None);
    let _ = runner::run_instruction(&mut ctx.commands, &mut variables, &mut ctx.state, &vec![], ins, 0, &mut env);
    let got = with_hz(|h| h.trace.last().map(|e| e.args.clone()));
    if st.want_sample() && c.nontrivial {
        let d = describe(&c);
        let e = expected.clone();
        st.sample(|| json!({"case": d, "received": e}));
    }
    match got {
        None => fail("C02/not-invoked", describe(&c)),
        Some(got) => {
            if got == expected && variables == vars {
                Verdict::Pass(if c.nontrivial { Some(fp(&(format!("{:?}", c.tmpls), &c.vars))) } else { None })
            } else if got != expected {
                let mut d = describe(&c);
                d["expected"] = json!(expected);
                d["received"] = json!(got);
                fail(&signature(&c, &expected, &got), d)
            } else {
                fail("C02/variables-changed", describe(&c))
            }
        }
    }
}

fn valid_output_token(n: &str) -> bool {
    !n.is_empty()
        && !n.chars().any(|c| c.is_whitespace() || c.is_control() || c == '#' || c == '\\' || c == '"' || c == '=')
        && !n.starts_with('!')
        && !n.starts_with(':')
}

fn case_text(t: &mut Tape, st: &mut Stats) -> Verdict {
    let c = gen_case(t, st);
    let vars: HashMap<String, String> = c.vars.iter().cloned().collect();
    let expected = reference(&c.tmpls, &vars);
    hz_reset();
    let mut ctx = bare_context();
    let mut script = String::new();
    let mut side = vec![];
    // establish the environment at run time where the name can be written as an output variable
    for (n, v) in &c.vars {
        if valid_output_token(n) && t.chance(3, 4) {
            script.push_str(&format!("{} = put {}\n", n, side.len()));
            side.push(v.clone());
            st.class("value-delivered-at-run-time");
        } else {
            ctx.variables.insert(n.clone(), v.clone());
        }
        if t.chance(1, 4) {
            script.push_str("emit filler ${nothing}\n");
        }
    }
    with_hz(|h| h.side = side);
    // the capturing line
    let mut line = String::new();
    let has_out = t.chance(1, 4);
    if has_out {
        line.push_str("r = ");
    }
    line.push_str(t.pick(&["cap", "cap2", "hz_capture", "hz::Cap"]));
    for (i, tm) in c.tmpls.iter().enumerate() {
        line.push_str(&" ".repeat(1 + t.below(2)));
        let a = arg_text(tm, ESC_MARK);
        let (r, _) = render_arg(&a, t.chance(1, 3), i == 0 && !has_out, t.flip());
        // the documented spelling \${name}; inside the rendered text the mark stands for one backslash
        let r = if t.flip() { r.replace(ESC_MARK, "\\") } else { r.replace(ESC_MARK, "\\\\") };
        line.push_str(&r);
    }
    script.push_str(&line);
    script.push('\n');
    if t.flip() {
        script.push_str("emit after\n");
    }
    let out = run_text(&script, ctx, 10_000, None);
    let got = with_hz(|h| h.trace.iter().rev().find(|e| e.cmd == "cap").map(|e| e.args.clone()));
    let mut d = describe(&c);
    d["script"] = json!(script);
    if let Err(e) = &out.result {
        d["error"] = json!(format!("{:?}", e));
        return fail("C02/text/run-error", d);
    }
    match got {
        None => fail("C02/text/not-invoked", d),
        Some(got) => {
            if got == expected {
                Verdict::Pass(if c.nontrivial { Some(fp(&script)) } else { None })
            } else {
                d["expected"] = json!(expected);
                d["received"] = json!(got);
                fail(&format!("{}/text", signature(&c, &expected, &got)), d)
            }
        }
    }
}

pub fn property() -> Property {
    Property {
        id: "C02",
        rule: "1..8 (one case in fifty: 20..120) argument templates (literal text free of $ % \\, ${name}, \\${name}, whole-argument %{name}) over 1..6 names (incl. empty, odd and 40..400-character names) and an environment of arbitrary-Unicode values (some of 4..70 KiB, some spread values of 101..700 words) biased to syntax look-alikes that refer to existing names; received arguments compared (count, order, text) with a reference expander; one direct case in twelve holds a spread of a value that cannot be split into words (an unclosed quote): what the templates before and after it contribute is compared, what the spread itself contributes is not. Drivers: direct (run_instruction on an in-memory instruction) and text (rendered line run by run_script, values delivered at run time by 'v = put i'). Non-trivial: a substituted value with a non-alphanumeric character, or a spread of != 1 words; distinct by (templates, environment) hash",
        assumptions: &[
            "spread words never start with '\"' and never contain '#' (the re-split honours quotes and comments; the property speaks of space-separated words)",
            "names are free of the space, tab, CR, LF (other white space only inside a name), '=' and '}' and contain no backslash and not the openers '${' / '%{' (inside an escaped reference the name is scanned as ordinary text, so such a name is itself read as syntax); literal text is free of '$', '%' and backslash",
        ],
        sections: vec![
            Section {
                name: "direct",
                plan: |t| match t {
                    Tier::Quick => Plan::Random { cases: 300_000, max_len: 200 },
                    Tier::Thorough => Plan::Random { cases: 15_000_000, max_len: 300 },
                },
                case: case_direct,
                min_classes: &[("value-looks-like-expansion", 5000), ("undefined-name", 5000), ("empty-name", 1000), ("name-longer-than-128-bytes", 1000), ("twenty-or-more-arguments", 1000), ("spread-of-over-100-words", 300), ("value-longer-than-4096-bytes", 1000), ("spread-0-words", 2000), ("spread-spaces-only", 300), ("escaped-reference", 5000), ("spread-word-starts-with-backslash", 300), ("templates-after-a-spread-that-cannot-be-split", 3000)],
            },
            Section {
                name: "text",
                plan: |t| match t {
                    Tier::Quick => Plan::Random { cases: 60_000, max_len: 260 },
                    Tier::Thorough => Plan::Random { cases: 3_000_000, max_len: 360 },
                },
                case: case_text,
                min_classes: &[("value-delivered-at-run-time", 5000)],
            },
        ],
        probes: vec![],
    }
}
