//! C12 — arrays, maps and sets behind handles behave like their plain counterparts.

use crate::engine::*;
use crate::hz::*;
use duckscript::runner;
use duckscript::types::command::CommandResult;
use duckscript::types::instruction::{Instruction, InstructionMetaInfo, InstructionType, ScriptInstruction};
use duckscript::types::runtime::Context;
use serde_json::json;
use std::collections::{BTreeMap, BTreeSet};

#[derive(Clone, Debug, PartialEq)]
enum Coll {
    Arr(Vec<String>),
    Map(BTreeMap<String, String>),
    Set(BTreeSet<String>),
}

impl Coll {
    fn kind(&self) -> u8 {
        match self {
            Coll::Arr(_) => 0,
            Coll::Map(_) => 1,
            Coll::Set(_) => 2,
        }
    }
}

fn ins(cmd: &str, args: &[String]) -> Instruction {
    let mut si = ScriptInstruction::new();
    si.command = Some(cmd.to_string());
    si.arguments = Some(args.to_vec());
    Instruction {
        meta_info: InstructionMetaInfo::new(),
        instruction_type: InstructionType::Script(si),
    }
}

fn exec(ctx: &mut Context, cmd: &str, args: &[String]) -> CommandResult {
    let (mut env, _o) = make_env(None);
    let (r, _) = runner::run_instruction(&mut ctx.commands, &mut ctx.variables, &mut ctx.state, &vec![], ins(cmd, args), 0, &mut env);
    r
}

fn show(r: &CommandResult) -> String {
    match r {
        CommandResult::Continue(v) => format!("Continue({:?})", v),
        CommandResult::Error(e) => format!("Error({})", e),
        CommandResult::Crash(e) => format!("Crash({})", e),
        CommandResult::Exit(v) => format!("Exit({:?})", v),
        CommandResult::GoTo(v, _) => format!("GoTo({:?})", v),
    }
}

struct World {
    ctx: Context,
    /// live collections: (handle, model)
    live: Vec<(String, Coll)>,
    released: Vec<String>,
}

fn value(t: &mut Tape, w: &World) -> String {
    match t.weighted(&[5, 2, 1, 4, 1]) {
        0 => {
            let mut s = crate::gen::hazard_string(t, 3);
            s.retain(|c| c != '$' && c != '%' && c != '\\');
            s
        }
        1 => t.pick(&["", "a", "b", "0", "false", "true", "x y", "é", " ", "-1"]).to_string(),
        2 => "handle:AbCdEfGhIjKlMnOpQrSt".to_string(),
        3 => {
            if w.live.is_empty() {
                "k".to_string()
            } else {
                w.live[t.below(w.live.len())].0.clone()
            }
        }
        _ => {
            if w.released.is_empty() {
                "handle:zzzzzzzzzzzzzzzzzzzz".to_string()
            } else {
                w.released[t.below(w.released.len())].clone()
            }
        }
    }
}

fn index(t: &mut Tape, len: usize) -> String {
    match t.weighted(&[6, 2, 2, 1, 1, 1]) {
        0 => t.below(len.max(1)).to_string(),
        1 => len.to_string(),
        2 => (len + 1 + t.below(5)).to_string(),
        3 => t.pick(&["-1", "-1", "-0", "-00"]).to_string(),
        4 => t.pick(&["x", "", "1.5", " 1", "1e2", "٣"]).to_string(),
        _ => t.pick(&["18446744073709551616", "9223372036854775808", "18446744073709551615", "9223372036854775807", "4294967296"]).to_string(),
    }
}

enum Target {
    Live(usize),
    Dead(String, &'static str),
}

fn target(t: &mut Tape, w: &World, kind: u8, st: &mut Stats) -> Target {
    let right: Vec<usize> = w.live.iter().enumerate().filter(|(_, (_, c))| c.kind() == kind).map(|(i, _)| i).collect();
    let wrong: Vec<usize> = w.live.iter().enumerate().filter(|(_, (_, c))| c.kind() != kind).map(|(i, _)| i).collect();
    match t.weighted(&[14, 3, 2, 1]) {
        0 if !right.is_empty() => Target::Live(right[t.below(right.len())]),
        1 if !wrong.is_empty() => {
            st.class("kind-confused-step");
            Target::Dead(w.live[wrong[t.below(wrong.len())]].0.clone(), "wrong-kind")
        }
        2 if !w.released.is_empty() => {
            st.class("use-after-release-step");
            Target::Dead(w.released[t.below(w.released.len())].clone(), "released")
        }
        _ => {
            if !right.is_empty() && t.chance(2, 3) {
                Target::Live(right[t.below(right.len())])
            } else {
                Target::Dead(t.pick(&["handle:nosuchhandle000000000", "nothandle", "", "handle:"]).to_string(), "unknown")
            }
        }
    }
}

fn error_or_false(r: &CommandResult) -> bool {
    matches!(r, CommandResult::Error(_)) || matches!(r, CommandResult::Continue(Some(v)) if v == "false")
}

fn some(s: &str) -> String {
    format!("Continue(Some({:?}))", s)
}

/// Re-reads every live collection through the public commands and compares with the model.
fn audit(w: &mut World) -> Result<(), serde_json::Value> {
    let live = w.live.clone();
    for (h, c) in &live {
        let hs = h.clone();
        match c {
            Coll::Arr(v) => {
                let l = exec(&mut w.ctx, "array_length", &[hs.clone()]);
                if show(&l) != some(&v.len().to_string()) {
                    return Err(json!({"handle": h, "array_length": show(&l), "model": v}));
                }
                for (i, x) in v.iter().enumerate() {
                    let g = exec(&mut w.ctx, "array_get", &[hs.clone(), i.to_string()]);
                    if show(&g) != some(x) {
                        return Err(json!({"handle": h, "index": i, "array_get": show(&g), "model": v}));
                    }
                }
                if show(&exec(&mut w.ctx, "is_array", &[hs.clone()])) != some("true") {
                    return Err(json!({"handle": h, "is_array": "not true"}));
                }
            }
            Coll::Map(m) => {
                let l = exec(&mut w.ctx, "map_size", &[hs.clone()]);
                if show(&l) != some(&m.len().to_string()) {
                    return Err(json!({"handle": h, "map_size": show(&l), "model": m}));
                }
                for (k, x) in m {
                    let g = exec(&mut w.ctx, "map_get", &[hs.clone(), k.clone()]);
                    if show(&g) != some(x) {
                        return Err(json!({"handle": h, "key": k, "map_get": show(&g), "model": m}));
                    }
                }
                if show(&exec(&mut w.ctx, "is_map", &[hs.clone()])) != some("true") {
                    return Err(json!({"handle": h, "is_map": "not true"}));
                }
            }
            Coll::Set(s) => {
                let l = exec(&mut w.ctx, "set_size", &[hs.clone()]);
                if show(&l) != some(&s.len().to_string()) {
                    return Err(json!({"handle": h, "set_size": show(&l), "model": s}));
                }
                for x in s {
                    let g = exec(&mut w.ctx, "set_contains", &[hs.clone(), x.clone()]);
                    if show(&g) != some("true") {
                        return Err(json!({"handle": h, "member": x, "set_contains": show(&g), "model": s}));
                    }
                }
                if show(&exec(&mut w.ctx, "is_set", &[hs.clone()])) != some("true") {
                    return Err(json!({"handle": h, "is_set": "not true"}));
                }
            }
        }
    }
    for h in &w.released.clone() {
        for c in ["is_array", "is_map", "is_set"] {
            if show(&exec(&mut w.ctx, c, &[h.clone()])) != some("false") {
                return Err(json!({"released_handle": h, "still": c}));
            }
        }
    }
    Ok(())
}

fn new_handle(w: &mut World, r: &CommandResult, c: Coll) -> Result<(), String> {
    match r {
        CommandResult::Continue(Some(h)) => {
            if w.live.iter().any(|(x, _)| x == h) {
                return Err(format!("handle {} handed out twice while live", h));
            }
            w.released.retain(|x| x != h);
            w.live.push((h.clone(), c));
            Ok(())
        }
        other => Err(format!("no handle returned: {}", show(other))),
    }
}

/// reads an array created by the implementation (map_keys / set_to_array) and releases it
fn read_temp_array(w: &mut World, r: &CommandResult) -> Result<Vec<String>, String> {
    let h = match r {
        CommandResult::Continue(Some(h)) => h.clone(),
        other => return Err(format!("no handle returned: {}", show(other))),
    };
    if w.live.iter().any(|(x, _)| *x == h) {
        return Err(format!("handle {} handed out twice while live", h));
    }
    let len = match exec(&mut w.ctx, "array_length", &[h.clone()]) {
        CommandResult::Continue(Some(l)) => l.parse::<usize>().map_err(|_| "bad length".to_string())?,
        other => return Err(format!("returned handle is not an array: {}", show(&other))),
    };
    let mut v = vec![];
    for i in 0..len {
        match exec(&mut w.ctx, "array_get", &[h.clone(), i.to_string()]) {
            CommandResult::Continue(Some(x)) => v.push(x),
            other => return Err(format!("array_get {} gave {}", i, show(&other))),
        }
    }
    let _ = exec(&mut w.ctx, "release", &[h]);
    Ok(v)
}

fn release_recursive(w: &mut World, h: &str) {
    if let Some(pos) = w.live.iter().position(|(x, _)| x == h) {
        let (hh, c) = w.live.remove(pos);
        w.released.push(hh);
        let children: Vec<String> = match c {
            Coll::Arr(v) => v,
            Coll::Map(m) => m.values().cloned().collect(),
            Coll::Set(s) => s.into_iter().collect(),
        };
        for ch in children {
            release_recursive(w, &ch);
        }
    }
}

const SEPS: &[&str] = &[",", ", ", "", "--", "ab", " ", "é", ";", "|"];

fn case(t: &mut Tape, st: &mut Stats, max_len: usize) -> Verdict {
    let mut w = World { ctx: sdk_context(), live: vec![], released: vec![] };
    let n = 1 + t.len(max_len - 1);
    let mut log: Vec<String> = vec![];
    let mut kinds_live_at_once = 0usize;
    let mut dead_then_read = false;
    runner::verif_fuel::set(400_000);
    runner::verif_fuel::set_depth_limit(NEST_LIMIT);
    let initial_handles = 0usize;
    let _ = initial_handles;
    for step in 0..n {
        // choose an operation
        let opk = t.weighted(&[3, 2, 2, 1, 30, 3]);
        let mut needs_audit = false;
        macro_rules! bail {
            ($sig:expr, $extra:expr) => {{
                runner::verif_fuel::set(u64::MAX);
                runner::verif_fuel::set_depth_limit(usize::MAX);
                return fail($sig, json!({"history": log, "failing_step": step, "detail": $extra}));
            }};
        }
        let (cmd, args, expected): (String, Vec<String>, Option<String>);
        let mut post: Option<Box<dyn FnOnce(&mut World, &CommandResult) -> Result<(), String>>> = None;
        let mut dead_kind: Option<&'static str> = None;
        match opk {
            0 if w.live.len() < 5 => {
                // array v...
                let k = t.len(4);
                let vals: Vec<String> = (0..k).map(|_| value(t, &w)).collect();
                // an empty-string element list: `array` with no args gives an empty array
                cmd = "array".into();
                args = vals.clone();
                expected = None;
                post = Some(Box::new(move |w, r| new_handle(w, r, Coll::Arr(vals))));
            }
            1 if w.live.len() < 5 => {
                cmd = "map".into();
                args = vec![];
                expected = None;
                post = Some(Box::new(move |w, r| new_handle(w, r, Coll::Map(BTreeMap::new()))));
            }
            2 if w.live.len() < 5 => {
                let k = t.len(4);
                let vals: Vec<String> = (0..k).map(|_| value(t, &w)).collect();
                cmd = "set_new".into();
                args = vals.clone();
                expected = None;
                post = Some(Box::new(move |w, r| new_handle(w, r, Coll::Set(vals.into_iter().collect()))));
            }
            3 if w.live.len() < 5 => {
                // range
                let s = t.range(-5, 5);
                let kind = t.below(5);
                let (a, b) = match kind {
                    0 => (s.to_string(), (s - 1 - t.below(3) as i64).to_string()),
                    1 => ("x".to_string(), "3".to_string()),
                    _ => (s.to_string(), (s + t.below(8) as i64).to_string()),
                };
                cmd = "range".into();
                args = vec![a.clone(), b.clone()];
                match (a.parse::<i64>(), b.parse::<i64>()) {
                    (Ok(x), Ok(y)) if x <= y => {
                        let vals: Vec<String> = (x..y).map(|v| v.to_string()).collect();
                        expected = None;
                        post = Some(Box::new(move |w, r| new_handle(w, r, Coll::Arr(vals))));
                    }
                    _ => {
                        expected = Some("Error".into());
                        needs_audit = true;
                    }
                }
            }
            5 => {
                // release
                let rec = t.flip();
                let h = if !w.live.is_empty() && t.chance(3, 4) {
                    w.live[t.below(w.live.len())].0.clone()
                } else if !w.released.is_empty() && t.flip() {
                    w.released[t.below(w.released.len())].clone()
                } else {
                    "handle:unknownunknownunknow".to_string()
                };
                cmd = "release".into();
                args = if rec { vec![t.pick(&["-r", "--recursive"]).to_string(), h.clone()] } else { vec![h.clone()] };
                let is_live = w.live.iter().any(|(x, _)| *x == h);
                expected = Some(some(if is_live { "true" } else { "false" }));
                if is_live {
                    if rec {
                        st.class("recursive-release");
                        let before = w.live.len();
                        // depth of the structure below h (handles reachable through values)
                        fn depth(w: &World, h: &str, seen: &mut Vec<String>) -> usize {
                            if seen.iter().any(|x| x == h) {
                                return 0;
                            }
                            match w.live.iter().find(|(x, _)| x == h) {
                                None => 0,
                                Some((_, c)) => {
                                    seen.push(h.to_string());
                                    let children: Vec<String> = match c {
                                        Coll::Arr(v) => v.clone(),
                                        Coll::Map(m) => m.values().cloned().collect(),
                                        Coll::Set(s) => s.iter().cloned().collect(),
                                    };
                                    1 + children.iter().map(|c| depth(w, c, seen)).max().unwrap_or(0)
                                }
                            }
                        }
                        let d = depth(&w, &h, &mut vec![]);
                        if d >= 2 {
                            st.class("recursive-release-2-levels");
                        }
                        if d >= 3 {
                            st.class("recursive-release-3-levels");
                        }
                        release_recursive(&mut w, &h);
                        let _ = before;
                    } else {
                        let pos = w.live.iter().position(|(x, _)| *x == h).unwrap();
                        let (hh, _) = w.live.remove(pos);
                        w.released.push(hh);
                    }
                }
                needs_audit = true;
            }
            _ => {
                // an operation on a handle
                let which = t.below(33);
                let kind: u8 = if which < 13 { 0 } else if which < 23 { 1 } else { 2 };
                let tg = if which >= 30 {
                    // is_array / is_map / is_set accept any handle
                    if w.live.is_empty() { Target::Dead("handle:unknownunknownunknow".into(), "unknown") } else { Target::Live(t.below(w.live.len())) }
                } else {
                    target(t, &w, kind, st)
                };
                let (h, model): (String, Option<Coll>) = match &tg {
                    Target::Live(i) => (w.live[*i].0.clone(), Some(w.live[*i].1.clone())),
                    Target::Dead(h, k) => {
                        dead_kind = Some(k);
                        (h.clone(), None)
                    }
                };
                let li = match &tg {
                    Target::Live(i) => Some(*i),
                    _ => None,
                };
                let arr = match &model {
                    Some(Coll::Arr(v)) => v.clone(),
                    _ => vec![],
                };
                let map = match &model {
                    Some(Coll::Map(m)) => m.clone(),
                    _ => BTreeMap::new(),
                };
                let set = match &model {
                    Some(Coll::Set(s)) => s.clone(),
                    _ => BTreeSet::new(),
                };
                let live = model.is_some();
                match which {
                    0 => {
                        let v = value(t, &w);
                        cmd = "array_push".into();
                        args = vec![h, v.clone()];
                        expected = if live { Some(some("true")) } else { None };
                        if let Some(i) = li {
                            if let Coll::Arr(a) = &mut w.live[i].1 {
                                a.push(v)
                            }
                        }
                    }
                    1 => {
                        cmd = "array_pop".into();
                        args = vec![h];
                        expected = if live { Some(format!("Continue({:?})", arr.last())) } else { None };
                        if let Some(i) = li {
                            if let Coll::Arr(a) = &mut w.live[i].1 {
                                a.pop();
                            }
                        }
                    }
                    2 => {
                        let ix = index(t, arr.len());
                        cmd = "array_get".into();
                        args = vec![h, ix.clone()];
                        expected = if live {
                            Some(match ix.parse::<usize>() {
                                Ok(i) => format!("Continue({:?})", arr.get(i)),
                                Err(_) => {
                                    needs_audit = true;
                                    "Error".to_string()
                                }
                            })
                        } else {
                            None
                        };
                    }
                    3 => {
                        let ix = index(t, arr.len());
                        let v = value(t, &w);
                        cmd = "array_set".into();
                        args = vec![h, ix.clone(), v.clone()];
                        expected = if live {
                            Some(match ix.parse::<usize>() {
                                Ok(i) if i < arr.len() => {
                                    if let Some(li) = li {
                                        if let Coll::Arr(a) = &mut w.live[li].1 {
                                            a[i] = v;
                                        }
                                    }
                                    some("true")
                                }
                                _ => {
                                    needs_audit = true;
                                    "Error".to_string()
                                }
                            })
                        } else {
                            None
                        };
                    }
                    4 => {
                        let ix = index(t, arr.len());
                        cmd = "array_remove".into();
                        args = vec![h, ix.clone()];
                        expected = if live {
                            Some(match ix.parse::<usize>() {
                                Ok(i) if i < arr.len() => {
                                    if let Some(li) = li {
                                        if let Coll::Arr(a) = &mut w.live[li].1 {
                                            a.remove(i);
                                        }
                                    }
                                    some("true")
                                }
                                _ => {
                                    needs_audit = true;
                                    "Error".to_string()
                                }
                            })
                        } else {
                            None
                        };
                    }
                    5 => {
                        cmd = "array_clear".into();
                        args = vec![h];
                        expected = if live { Some(some("true")) } else { None };
                        if let Some(i) = li {
                            w.live[i].1 = Coll::Arr(vec![]);
                        }
                    }
                    6 => {
                        cmd = "array_length".into();
                        args = vec![h];
                        expected = if live { Some(some(&arr.len().to_string())) } else { None };
                    }
                    7 => {
                        cmd = "array_is_empty".into();
                        args = vec![h];
                        expected = if live { Some(some(&arr.is_empty().to_string())) } else { None };
                    }
                    8 => {
                        let v = if !arr.is_empty() && t.chance(2, 3) { arr[t.below(arr.len())].clone() } else { value(t, &w) };
                        cmd = "array_contains".into();
                        args = vec![h, v.clone()];
                        expected = if live {
                            Some(match arr.iter().position(|x| *x == v) {
                                Some(i) => some(&i.to_string()),
                                None => some("false"),
                            })
                        } else {
                            None
                        };
                    }
                    9 => {
                        let sep = t.pick(SEPS).to_string();
                        cmd = "array_join".into();
                        args = vec![h, sep.clone()];
                        expected = if live { Some(some(&arr.join(&sep))) } else { None };
                    }
                    10 | 11 => {
                        // array_concat of this handle with another array (or a wrong one)
                        let other = target(t, &w, 0, st);
                        let (h2, m2) = match &other {
                            Target::Live(i) => (w.live[*i].0.clone(), Some(w.live[*i].1.clone())),
                            Target::Dead(h, k) => {
                                dead_kind = Some(k);
                                (h.clone(), None)
                            }
                        };
                        cmd = "array_concat".into();
                        args = vec![h, h2];
                        match (&model, &m2) {
                            (Some(Coll::Arr(a)), Some(Coll::Arr(b))) if w.live.len() < 6 => {
                                let mut joined = a.clone();
                                joined.extend(b.iter().cloned());
                                expected = None;
                                dead_kind = None;
                                post = Some(Box::new(move |w, r| new_handle(w, r, Coll::Arr(joined))));
                            }
                            (Some(Coll::Arr(_)), Some(Coll::Arr(_))) => {
                                // too many live handles: create and release at once
                                expected = None;
                                dead_kind = None;
                                post = Some(Box::new(move |w, r| read_temp_array(w, r).map(|_| ())));
                            }
                            _ => {
                                expected = None;
                                if dead_kind.is_none() {
                                    dead_kind = Some("wrong-kind");
                                }
                            }
                        }
                    }
                    12 => {
                        cmd = "set_from_array".into();
                        args = vec![h];
                        if live && w.live.len() < 6 {
                            let s: BTreeSet<String> = arr.iter().cloned().collect();
                            expected = None;
                            post = Some(Box::new(move |w, r| new_handle(w, r, Coll::Set(s))));
                        } else if live {
                            expected = None;
                            post = Some(Box::new(move |w, r| match r {
                                CommandResult::Continue(Some(h)) => {
                                    let h = h.clone();
                                    let _ = exec(&mut w.ctx, "release", &[h]);
                                    Ok(())
                                }
                                other => Err(format!("no handle: {}", show(other))),
                            }));
                        } else {
                            expected = None;
                        }
                    }
                    13 => {
                        let k = value(t, &w);
                        let v = value(t, &w);
                        cmd = "map_put".into();
                        args = vec![h, k.clone(), v.clone()];
                        expected = if live { Some(some("true")) } else { None };
                        if let Some(i) = li {
                            if let Coll::Map(m) = &mut w.live[i].1 {
                                m.insert(k, v);
                            }
                        }
                    }
                    14 | 15 => {
                        let k = if !map.is_empty() && t.chance(2, 3) { map.keys().nth(t.below(map.len())).unwrap().clone() } else { value(t, &w) };
                        cmd = "map_get".into();
                        args = vec![h, k.clone()];
                        expected = if live { Some(format!("Continue({:?})", map.get(&k))) } else { None };
                    }
                    16 => {
                        let k = if !map.is_empty() && t.chance(2, 3) { map.keys().nth(t.below(map.len())).unwrap().clone() } else { value(t, &w) };
                        cmd = "map_remove".into();
                        args = vec![h, k.clone()];
                        expected = if live { Some(format!("Continue({:?})", map.get(&k))) } else { None };
                        if let Some(i) = li {
                            if let Coll::Map(m) = &mut w.live[i].1 {
                                m.remove(&k);
                            }
                        }
                    }
                    17 => {
                        cmd = "map_size".into();
                        args = vec![h];
                        expected = if live { Some(some(&map.len().to_string())) } else { None };
                    }
                    18 => {
                        cmd = "map_keys".into();
                        args = vec![h];
                        expected = None;
                        if live {
                            let want: BTreeSet<String> = map.keys().cloned().collect();
                            let n = map.len();
                            post = Some(Box::new(move |w, r| {
                                let v = read_temp_array(w, r)?;
                                let got: BTreeSet<String> = v.iter().cloned().collect();
                                if got != want || v.len() != n {
                                    Err(format!("keys {:?}, expected {:?}", v, want))
                                } else {
                                    Ok(())
                                }
                            }));
                        }
                    }
                    19 => {
                        cmd = "map_clear".into();
                        args = vec![h];
                        expected = if live { Some(some("true")) } else { None };
                        if let Some(i) = li {
                            w.live[i].1 = Coll::Map(BTreeMap::new());
                        }
                    }
                    20 => {
                        let k = if !map.is_empty() && t.chance(2, 3) { map.keys().nth(t.below(map.len())).unwrap().clone() } else { value(t, &w) };
                        cmd = "map_contains_key".into();
                        args = vec![h, k.clone()];
                        expected = if live { Some(some(&map.contains_key(&k).to_string())) } else { None };
                    }
                    21 => {
                        let v = if !map.is_empty() && t.chance(2, 3) { map.values().nth(t.below(map.len())).unwrap().clone() } else { value(t, &w) };
                        cmd = "map_contains_value".into();
                        args = vec![h, v.clone()];
                        expected = if live { Some(some(&map.values().any(|x| *x == v).to_string())) } else { None };
                    }
                    22 => {
                        cmd = "map_is_empty".into();
                        args = vec![h];
                        expected = if live { Some(some(&map.is_empty().to_string())) } else { None };
                    }
                    23 => {
                        let v = value(t, &w);
                        cmd = "set_put".into();
                        args = vec![h, v.clone()];
                        expected = if live { Some(some("true")) } else { None };
                        if let Some(i) = li {
                            if let Coll::Set(s) = &mut w.live[i].1 {
                                s.insert(v);
                            }
                        }
                    }
                    24 => {
                        let v = if !set.is_empty() && t.chance(2, 3) { set.iter().nth(t.below(set.len())).unwrap().clone() } else { value(t, &w) };
                        cmd = "set_remove".into();
                        args = vec![h, v.clone()];
                        expected = if live { Some(some(&set.contains(&v).to_string())) } else { None };
                        if let Some(i) = li {
                            if let Coll::Set(s) = &mut w.live[i].1 {
                                s.remove(&v);
                            }
                        }
                    }
                    25 => {
                        let v = if !set.is_empty() && t.chance(2, 3) { set.iter().nth(t.below(set.len())).unwrap().clone() } else { value(t, &w) };
                        cmd = "set_contains".into();
                        args = vec![h, v.clone()];
                        expected = if live { Some(some(&set.contains(&v).to_string())) } else { None };
                    }
                    26 => {
                        cmd = "set_size".into();
                        args = vec![h];
                        expected = if live { Some(some(&set.len().to_string())) } else { None };
                    }
                    27 => {
                        cmd = "set_clear".into();
                        args = vec![h];
                        expected = if live { Some(some("true")) } else { None };
                        if let Some(i) = li {
                            w.live[i].1 = Coll::Set(BTreeSet::new());
                        }
                    }
                    28 => {
                        cmd = "set_to_array".into();
                        args = vec![h];
                        expected = None;
                        if live {
                            let want = set.clone();
                            post = Some(Box::new(move |w, r| {
                                let v = read_temp_array(w, r)?;
                                let got: BTreeSet<String> = v.iter().cloned().collect();
                                if got != want || v.len() != want.len() {
                                    Err(format!("elements {:?}, expected {:?}", v, want))
                                } else {
                                    Ok(())
                                }
                            }));
                        }
                    }
                    29 => {
                        cmd = "set_is_empty".into();
                        args = vec![h];
                        expected = if live { Some(some(&set.is_empty().to_string())) } else { None };
                    }
                    30 => {
                        cmd = "is_array".into();
                        args = vec![h];
                        dead_kind = None;
                        expected = Some(some(&matches!(model, Some(Coll::Arr(_))).to_string()));
                    }
                    31 => {
                        cmd = "is_map".into();
                        args = vec![h];
                        dead_kind = None;
                        expected = Some(some(&matches!(model, Some(Coll::Map(_))).to_string()));
                    }
                    _ => {
                        cmd = "is_set".into();
                        args = vec![h];
                        dead_kind = None;
                        expected = Some(some(&matches!(model, Some(Coll::Set(_))).to_string()));
                    }
                }
            }
            _ => {
                // too many live handles for a creation: read something instead
                cmd = "is_array".into();
                args = vec!["nothandle".into()];
                expected = Some(some("false"));
            }
        }
        log.push(format!("{} {:?}", cmd, args));
        let r = exec(&mut w.ctx, &cmd, &args);
        if runner::verif_fuel::exhausted() || runner::verif_fuel::depth_exceeded() {
            bail!(&format!("C12/{}/does-not-finish", cmd), json!("fuel or nesting limit exhausted"));
        }
        let got = show(&r);
        if let Some(dk) = dead_kind {
            // released / unknown / wrong-kind handle: an error (or false), and nothing changes
            if !error_or_false(&r) {
                bail!(&format!("C12/{}/{}-handle-accepted", cmd, dk), json!({"result": got}));
            }
            needs_audit = true;
        } else {
            if let Some(e) = &expected {
                let ok = if e == "Error" { matches!(r, CommandResult::Error(_)) } else { *e == got };
                if !ok {
                    bail!(&format!("C12/{}/output", cmd), json!({"model": e, "actual": got}));
                }
            }
            if let Some(p) = post {
                if let Err(e) = p(&mut w, &r) {
                    bail!(&format!("C12/{}/output", cmd), json!({"problem": e, "actual": got}));
                }
            }
        }
        let kinds: BTreeSet<u8> = w.live.iter().map(|(_, c)| c.kind()).collect();
        kinds_live_at_once = kinds_live_at_once.max(kinds.len());
        if needs_audit || t.chance(1, 6) {
            if let Err(d) = audit(&mut w) {
                let why = if dead_kind.is_some() { "after-rejected-operation" } else { "after-operation" };
                bail!(&format!("C12/{}/collections-changed-{}", cmd, why), d);
            }
            if dead_kind.is_some() {
                dead_then_read = true;
            }
        }
    }
    // final audit
    if let Err(d) = audit(&mut w) {
        runner::verif_fuel::set(u64::MAX);
        runner::verif_fuel::set_depth_limit(usize::MAX);
        return fail("C12/final-audit", json!({"history": log, "detail": d}));
    }
    runner::verif_fuel::set(u64::MAX);
    runner::verif_fuel::set_depth_limit(usize::MAX);
    let nt = dead_then_read && kinds_live_at_once >= 2;
    if st.want_sample() && nt {
        let l = log.clone();
        st.sample(|| json!({"history": l}));
    }
    Verdict::Pass(if nt { Some(fp(&log)) } else { None })
}

fn case_q(t: &mut Tape, st: &mut Stats) -> Verdict {
    case(t, st, 60)
}
fn case_t(t: &mut Tape, st: &mut Stats) -> Verdict {
    case(t, st, 200)
}

/// (deep-nesting) a chain of 65..200 collections, each holding the handle of the next, released with `release -r`
/// on its head: every collection of the chain is gone afterwards, and nothing else is.
fn case_deep(t: &mut Tape, st: &mut Stats) -> Verdict {
    let mut ctx = sdk_context();
    let val = |r: &CommandResult| match r {
        CommandResult::Continue(Some(v)) => Some(v.clone()),
        _ => None,
    };
    let count = |ctx: &Context| match ctx.state.get("handles") {
        Some(duckscript::types::runtime::StateValue::SubState(m)) => m.len(),
        _ => 0,
    };
    // a bystander that must survive
    let by = val(&exec(&mut ctx, "array", &["kept".to_string()])).unwrap_or_default();
    let before = count(&ctx);
    // usually 65..200 levels, one case in eight 2100..3100
    let depth = if t.chance(1, 8) { 2100 + t.below(1001) } else { 65 + t.below(136) };
    if depth > 2048 {
        st.class("chain-deeper-than-2048");
    }
    let mut chain: Vec<(String, u8)> = vec![];
    let mut inner = val(&exec(&mut ctx, "array", &["leaf".to_string()])).unwrap_or_default();
    chain.push((inner.clone(), 0));
    for _ in 1..depth {
        let kind = t.below(3) as u8;
        let h = match kind {
            0 => val(&exec(&mut ctx, "array", &["x".to_string(), inner.clone()])),
            1 => {
                let h = val(&exec(&mut ctx, "map", &[]));
                if let Some(h) = &h {
                    let _ = exec(&mut ctx, "map_put", &[h.clone(), "child".to_string(), inner.clone()]);
                }
                h
            }
            _ => val(&exec(&mut ctx, "set_new", &[inner.clone(), "y".to_string()])),
        };
        let h = match h {
            Some(h) if h.starts_with("handle:") => h,
            other => return fail("C12/deep/create", json!({"got": format!("{:?}", other)})),
        };
        chain.push((h.clone(), kind));
        inner = h;
    }
    let flag = *t.pick_ref(&["-r", "--recursive"]);
    let r = exec(&mut ctx, "release", &[flag.to_string(), inner.clone()]);
    let d = |what: &str, extra: serde_json::Value| json!({"chain_length": depth, "kinds_from_leaf_to_head": chain.iter().map(|c| ["array", "map", "set"][c.1 as usize]).collect::<Vec<_>>(), "release": format!("release {} <head>", flag), "mismatch": what, "detail": extra});
    if val(&r).as_deref() != Some("true") {
        return fail("C12/deep/release-output", d("release -r of the head", json!(show(&r))));
    }
    for (i, (h, kind)) in chain.iter().enumerate() {
        let q = ["is_array", "is_map", "is_set"][*kind as usize];
        let a = exec(&mut ctx, q, &[h.clone()]);
        if val(&a).as_deref() != Some("false") {
            return fail("C12/deep/still-live-after-recursive-release", d("a collection of the chain is still live", json!({"levels_below_the_head": depth - 1 - i, "query": q, "answer": show(&a)})));
        }
    }
    let after = count(&ctx);
    if after != before {
        return fail("C12/deep/handle-table", d("handle table size after the release", json!({"before_the_chain": before, "after": after})));
    }
    if val(&exec(&mut ctx, "array_length", &[by.clone()])).as_deref() != Some("1") {
        return fail("C12/deep/bystander", d("an unrelated array was affected", json!(null)));
    }
    st.class("recursive-release-deeper-than-64");
    Verdict::Pass(Some(fp(&(depth, chain.iter().map(|c| c.1).collect::<Vec<_>>()))))
}

pub fn property() -> Property {
    Property {
        id: "C12",
        rule: "histories of 1..60 (thorough ..200) operations over <= 5 live handles of mixed kinds: every command the property lists, indexes inside/at/beyond the end, negative, non-numeric and huge, values over hazard Unicode incl. empty, handle look-alikes, other live handles and released handles, use-after-release, kind confusion, release with and without -r; each operation is one run_instruction on a persistent SDK context. Oracle: Vec/BTreeMap/BTreeSet per live handle; outputs compared per step (map_keys / set_to_array as sets); after every rejected (error/false) step and at random other steps ALL live collections are re-read through the public commands and compared, released handles must answer false to is_array/is_map/is_set; handle distinctness checked at creation; (deep-nesting) chains of 65..200 (one in eight: 2100..3100) arrays / maps / sets each holding the next one's handle, released recursively from the head: all gone, handle table back to its size, a bystander untouched. Non-trivial: a kind-confused / use-after-release / unknown-handle step followed by a full re-read with >= 2 kinds live; distinct by history",
        assumptions: &[
            "values are free of '$', '%' and backslash (binding is C02's subject); array_join separators come from a pool outside the C09 known classes",
            "for a rejected operation only 'error result or false' is required, not a particular message",
        ],
        sections: vec![
            Section {
                name: "histories",
                plan: |t| match t {
                    Tier::Quick => Plan::Random { cases: 120_000, max_len: 600 },
                    Tier::Thorough => Plan::Random { cases: 3_000_000, max_len: 800 },
                },
                case: case_q,
                min_classes: &[("kind-confused-step", 3000), ("use-after-release-step", 1000), ("recursive-release", 1000), ("recursive-release-2-levels", 300), ("recursive-release-3-levels", 30)],
            },
            Section {
                name: "deep-nesting",
                plan: |t| match t {
                    Tier::Quick => Plan::Random { cases: 400, max_len: 220 },
                    Tier::Thorough => Plan::Random { cases: 8_000, max_len: 220 },
                },
                case: case_deep,
                min_classes: &[("recursive-release-deeper-than-64", 300), ("chain-deeper-than-2048", 20)],
            },
            Section {
                name: "long-histories",
                plan: |t| match t {
                    Tier::Quick => Plan::Skip,
                    Tier::Thorough => Plan::Random { cases: 300_000, max_len: 2200 },
                },
                case: case_t,
                min_classes: &[],
            },
        ],
        probes: vec![],
    }
}
