//! C11 — variable commands and the scope stack behave like a map and a stack of maps.

use crate::engine::*;
use crate::hz::*;
use duckscript::runner;
use duckscript::types::command::CommandResult;
use duckscript::types::instruction::{Instruction, InstructionMetaInfo, InstructionType, ScriptInstruction};
use duckscript::types::runtime::Context;
use serde_json::json;
use std::collections::{BTreeSet, HashMap};

// "ba" and "xs::q" hold the prefixes "a" / "s::" in the middle: prefix clearing must not touch them
const NAMES: &[&str] = &["a", "ab", "abc", "s::x", "s::y", "z", "ba", "xs::q", "ss::r", "aa::k"];

#[derive(Clone, Debug)]
enum Op {
    Set(String, String),
    Unset(Vec<String>),
    SetByName(String, Option<String>),
    GetByName(String),
    IsDefined(String),
    /// with the output variable the listing is assigned to (it may be defined already)
    GetAllVarNames(Option<String>),
    UnsetAll(Option<String>),
    ClearScope(String),
    Push(Option<Vec<String>>),
    Pop(Option<Vec<String>>),
    /// an unrelated script-implemented command that fails (wrong handle): no effect on variables or saved maps
    OtherCommandFails(u8),
}

fn value(t: &mut Tape) -> String {
    let mut s = crate::gen::hazard_string(t, 3);
    s.retain(|c| c != '$' && c != '%' && c != '\\');
    s
}

fn names(t: &mut Tape, max: usize) -> Vec<String> {
    let n = t.len(max);
    (0..n).map(|_| if t.chance(1, 8) { "undefined_name".to_string() } else { t.pick(NAMES).to_string() }).collect()
}

fn gen_op(t: &mut Tape) -> Op {
    match t.weighted(&[6, 2, 3, 2, 2, 1, 1, 1, 4, 4, 1]) {
        0 => Op::Set(t.pick(NAMES).to_string(), value(t)),
        1 => Op::Unset(names(t, 3)),
        2 => Op::SetByName(t.pick(NAMES).to_string(), if t.chance(2, 3) { Some(value(t)) } else { None }),
        3 => Op::GetByName(t.pick(NAMES).to_string()),
        4 => Op::IsDefined(t.pick(NAMES).to_string()),
        5 => Op::GetAllVarNames(if t.chance(2, 3) { Some(t.pick(NAMES).to_string()) } else { None }),
        6 => Op::UnsetAll(if t.flip() { Some(t.pick(&["a", "ab", "s::", "s", "zz", ""]).to_string()) } else { None }),
        7 => Op::ClearScope(t.pick(&["s", "a", "s::x", "none"]).to_string()),
        8 => Op::Push(if t.chance(2, 3) { Some(names(t, 4)) } else { None }),
        10 => Op::OtherCommandFails(t.below(2) as u8),
        _ => Op::Pop(if t.chance(2, 3) { Some(names(t, 4)) } else { None }),
    }
}

fn ins(cmd: &str, args: Vec<String>) -> Instruction {
    let mut si = ScriptInstruction::new();
    si.command = Some(cmd.to_string());
    si.arguments = Some(args);
    Instruction {
        meta_info: InstructionMetaInfo::new(),
        instruction_type: InstructionType::Script(si),
    }
}

fn exec(ctx: &mut Context, cmd: &str, args: Vec<String>) -> CommandResult {
    let (mut env, _o) = make_env(None);
    let (r, _) = runner::run_instruction(&mut ctx.commands, &mut ctx.variables, &mut ctx.state, &vec![], ins(cmd, args), 0, &mut env);
    r
}

fn res_str(r: &CommandResult) -> String {
    match r {
        CommandResult::Continue(v) => format!("Continue({:?})", v),
        CommandResult::Error(e) => format!("Error({})", e),
        CommandResult::Crash(e) => format!("Crash({})", e),
        CommandResult::Exit(v) => format!("Exit({:?})", v),
        CommandResult::GoTo(v, _) => format!("GoTo({:?})", v),
    }
}

#[derive(Default)]
struct Flags {
    max_depth: usize,
    copy_at_depth2: bool,
    failed_pop_then_more: bool,
}

type World = (Context, HashMap<String, String>, Vec<HashMap<String, String>>);

fn case(t: &mut Tape, st: &mut Stats, max_len: usize) -> Verdict {
    let n = 1 + t.len(max_len - 1);
    let ops: Vec<Op> = (0..n).map(|_| gen_op(t)).collect();
    // one history in six is continued on a CLONE of the context taken at some step (after the original went on):
    // the clone is a context of its own, with the variables and the stack of saved maps of that moment
    let fork = if t.chance(1, 6) {
        let at = t.below(n);
        let k = 1 + t.len(6);
        let tail: Vec<Op> = (0..k).map(|_| if t.chance(2, 3) { Op::Pop(if t.flip() { Some(names(t, 3)) } else { None }) } else { gen_op(t) }).collect();
        Some((at, tail))
    } else {
        None
    };
    run_history(&ops, st, fork)
}

fn run_history(ops: &[Op], st: &mut Stats, fork: Option<(usize, Vec<Op>)>) -> Verdict {
    let mut ctx = sdk_context();
    let mut m: HashMap<String, String> = HashMap::new();
    let mut stack: Vec<HashMap<String, String>> = vec![];
    let mut flags = Flags::default();
    let mut forked: Option<World> = None;
    duckscript::runner::verif_fuel::set(50_000 + 200 * ops.len() as u64);
    duckscript::runner::verif_fuel::set_depth_limit(NEST_LIMIT);
    let v = run_ops(&mut ctx, &mut m, &mut stack, ops, st, &[], fork.as_ref().map(|f| f.0), &mut forked, &mut flags);
    if !matches!(v, Verdict::Pass(None)) {
        return v;
    }
    if let (Some((at, tail)), Some((mut c2, mut m2, mut s2))) = (fork, forked) {
        if !s2.is_empty() {
            st.class("history-continued-on-a-clone-with-open-pushes");
        }
        let prefix: Vec<String> = ops.iter().take(at + 1).map(|o| format!("{:?}", o)).chain(std::iter::once(format!("-- the original context went on for {} more steps; what follows runs on the clone taken here --", ops.len() - at - 1))).collect();
        let mut f2 = Flags::default();
        let v = run_ops(&mut c2, &mut m2, &mut s2, &tail, st, &prefix, None, &mut None, &mut f2);
        if !matches!(v, Verdict::Pass(None)) {
            return v;
        }
    }
    duckscript::runner::verif_fuel::set(u64::MAX);
    duckscript::runner::verif_fuel::set_depth_limit(usize::MAX);
    if flags.max_depth >= 2 {
        st.class("push-depth-2");
    }
    if flags.max_depth > 256 {
        st.class("push-depth-over-256");
    }
    let nt = (flags.max_depth >= 2 && flags.copy_at_depth2) || flags.failed_pop_then_more;
    if st.want_sample() && nt && ops.len() < 60 {
        let o = ops.to_vec();
        st.sample(|| json!({"history": o.iter().map(|x| format!("{:?}", x)).collect::<Vec<_>>()}));
    }
    Verdict::Pass(if nt { Some(fp(&format!("{:?}", ops))) } else { None })
}

/// runs `ops` on a world and its model; Pass(None) = every step agreed
#[allow(clippy::too_many_arguments)]
fn run_ops(ctx: &mut Context, m: &mut HashMap<String, String>, stack: &mut Vec<HashMap<String, String>>, ops: &[Op], st: &mut Stats, prefix: &[String], fork_at: Option<usize>, forked: &mut Option<World>, flags: &mut Flags) -> Verdict {
    let mut had_failed_pop = false;
    for (step, op) in ops.iter().enumerate() {
        if had_failed_pop {
            flags.failed_pop_then_more = true;
        }
        let mut unconstrained: Vec<String> = vec![];
        let describe = |what: &str, extra: serde_json::Value| json!({"history": prefix.iter().cloned().chain(ops.iter().take(step + 1).map(|o| format!("{:?}", o))).collect::<Vec<_>>(), "failing_step": prefix.len() + step, "mismatch": what, "detail": extra});
        let opname = format!("{:?}", op).split(|c| c == '(' || c == ' ').next().unwrap_or("op").to_string();
        // expected output
        let (r, want): (CommandResult, String) = match op {
            Op::Set(k, v) => {
                let r = exec(ctx, "set", vec![v.clone()]);
                // what the runner does with the output variable
                if let CommandResult::Continue(o) = &r {
                    match o {
                        Some(x) => {
                            ctx.variables.insert(k.clone(), x.clone());
                        }
                        None => {
                            ctx.variables.remove(k);
                        }
                    }
                }
                m.insert(k.clone(), v.clone());
                (r, format!("Continue({:?})", Some(v.clone())))
            }
            Op::Unset(ks) => {
                let r = exec(ctx, "unset", ks.clone());
                for k in ks {
                    m.remove(k);
                }
                (r, "Continue(None)".to_string())
            }
            Op::SetByName(k, v) => {
                let mut a = vec![k.clone()];
                if let Some(v) = v {
                    a.push(v.clone());
                }
                let r = exec(ctx, "set_by_name", a);
                match v {
                    Some(v) => {
                        m.insert(k.clone(), v.clone());
                    }
                    None => {
                        m.remove(k);
                    }
                }
                (r, format!("Continue({:?})", v))
            }
            Op::OtherCommandFails(k) => {
                st.class("unrelated-script-command-fails-in-between");
                let r = if *k == 0 { exec(ctx, "array_concat", vec!["not-a-handle".to_string()]) } else { exec(ctx, "array_join", vec!["not-a-handle".to_string(), ",".to_string()]) };
                (r, "Error(".to_string())
            }
            Op::GetByName(k) => (exec(ctx, "get_by_name", vec![k.clone()]), format!("Continue({:?})", m.get(k))),
            Op::IsDefined(k) => (exec(ctx, "is_defined", vec![k.clone()]), format!("Continue({:?})", Some(m.contains_key(k).to_string()))),
            Op::GetAllVarNames(out) => {
                let r = match out {
                    None => exec(ctx, "get_all_var_names", vec![]),
                    Some(o) => {
                        if m.contains_key(o) {
                            st.class("listing-assigned-to-a-variable-that-is-already-defined");
                        }
                        let mut i = ins("get_all_var_names", vec![]);
                        if let InstructionType::Script(si) = &mut i.instruction_type {
                            si.output = Some(o.clone());
                        }
                        let (mut env, _o) = make_env(None);
                        runner::run_instruction(&mut ctx.commands, &mut ctx.variables, &mut ctx.state, &vec![], i, 0, &mut env).0
                    }
                };
                let h = match &r {
                    CommandResult::Continue(Some(h)) => h.clone(),
                    other => return fail("C11/get_all_var_names/output", describe("no handle returned", json!(res_str(other)))),
                };
                let len = match exec(ctx, "array_length", vec![h.clone()]) {
                    CommandResult::Continue(Some(l)) => l.parse::<usize>().unwrap_or(usize::MAX),
                    other => return fail("C11/get_all_var_names/output", describe("handle is not an array", json!(res_str(&other)))),
                };
                let mut got = BTreeSet::new();
                for i in 0..len.min(1000) {
                    if let CommandResult::Continue(Some(v)) = exec(ctx, "array_get", vec![h.clone(), i.to_string()]) {
                        got.insert(v);
                    }
                }
                let _ = exec(ctx, "release", vec![h.clone()]);
                let want: BTreeSet<String> = m.keys().cloned().collect();
                if got != want || len != want.len() {
                    return fail("C11/get_all_var_names/output", describe("names differ", json!({"model": want, "actual": got, "length": len})));
                }
                if let Some(o) = out {
                    // what the runner does with the output variable
                    ctx.variables.insert(o.clone(), h.clone());
                    m.insert(o.clone(), h.clone());
                }
                (CommandResult::Continue(None), "Continue(None)".to_string())
            }
            Op::UnsetAll(p) => {
                let a = match p {
                    Some(p) => vec!["--prefix".to_string(), p.clone()],
                    None => vec![],
                };
                let r = exec(ctx, "unset_all_vars", a);
                match p {
                    Some(p) => m.retain(|k, _| !k.starts_with(p.as_str())),
                    None => m.clear(),
                }
                (r, "Continue(None)".to_string())
            }
            Op::ClearScope(s) => {
                let r = exec(ctx, "clear_scope", vec![s.clone()]);
                let pre = format!("{}::", s);
                m.retain(|k, _| !k.starts_with(&pre));
                (r, "Continue(None)".to_string())
            }
            Op::Push(copy) => {
                let mut a = vec![];
                if let Some(c) = copy {
                    a.push("--copy".to_string());
                    a.extend(c.iter().cloned());
                }
                let r = exec(ctx, "scope_push_stack", a);
                stack.push(m.clone());
                let mut nm = HashMap::new();
                if let Some(c) = copy {
                    for k in c {
                        if let Some(v) = m.get(k) {
                            nm.insert(k.clone(), v.clone());
                        }
                    }
                    if stack.len() >= 2 {
                        flags.copy_at_depth2 = true;
                    }
                }
                *m = nm;
                flags.max_depth = flags.max_depth.max(stack.len());
                (r, format!("Continue({:?})", Some("true")))
            }
            Op::Pop(copy) => {
                let mut a = vec![];
                if let Some(c) = copy {
                    a.push("--copy".to_string());
                    a.extend(c.iter().cloned());
                }
                let r = exec(ctx, "scope_pop_stack", a);
                match stack.pop() {
                    None => {
                        had_failed_pop = true;
                        st.class("pop-on-empty-stack");
                        (r, "Error(Reached end of scope stack.)".to_string())
                    }
                    Some(saved) => {
                        let mut nm = saved;
                        if let Some(c) = copy {
                            for k in c {
                                match m.get(k) {
                                    Some(v) => {
                                        nm.insert(k.clone(), v.clone());
                                    }
                                    None => {
                                        st.class("pop-copy-of-undefined-name");
                                        unconstrained.push(k.clone())
                                    }
                                }
                            }
                            if stack.len() >= 1 {
                                flags.copy_at_depth2 = true;
                            }
                        }
                        *m = nm;
                        (r, format!("Continue({:?})", Some("true")))
                    }
                }
            }
        };
        if duckscript::runner::verif_fuel::exhausted() {
            return fail(&format!("C11/{}/does-not-finish", opname), describe("fuel exhausted", json!(null)));
        }
        let got = res_str(&r);
        // the error text of a failed pop is not part of the property: compare the kind only
        let same = if want.starts_with("Error(") { got.starts_with("Error(") } else { got == want };
        if !same {
            return fail(&format!("C11/{}/output", opname), describe("command output differs", json!({"model": want, "actual": got})));
        }
        // the whole variable map
        for k in &unconstrained {
            match ctx.variables.get(k) {
                Some(v) => {
                    m.insert(k.clone(), v.clone());
                }
                None => {
                    m.remove(k);
                }
            }
        }
        if ctx.variables != *m {
            return fail(&format!("C11/{}/variables", opname), describe("variable map differs", json!({"model": m, "actual": ctx.variables})));
        }
            if fork_at == Some(step) {
            *forked = Some((ctx.clone(), m.clone(), stack.clone()));
        }
    }
    Verdict::Pass(None)
}

/// (deep-stack) more than 256 pushes open at once, every level marked, then popped last-in-first-out
fn case_deep(t: &mut Tape, st: &mut Stats) -> Verdict {
    let depth = 257 + t.below(80);
    let mut ops = vec![];
    for i in 0..depth {
        ops.push(Op::Set("a".to_string(), format!("level{}", i)));
        if t.chance(1, 4) {
            ops.push(Op::Set(t.pick(NAMES).to_string(), format!("x{}", i)));
        }
        ops.push(Op::Push(match t.below(3) {
            0 => None,
            1 => Some(vec!["a".to_string()]),
            _ => Some(names(t, 3)),
        }));
    }
    for _ in 0..t.len(4) {
        ops.push(gen_op(t));
    }
    for _ in 0..depth + 1 {
        ops.push(Op::Pop(if t.chance(1, 4) { Some(names(t, 2)) } else { None }));
    }
    run_history(&ops, st, None)
}

fn case_q(t: &mut Tape, st: &mut Stats) -> Verdict {
    case(t, st, 40)
}
fn case_t(t: &mut Tape, st: &mut Stats) -> Verdict {
    case(t, st, 120)
}

pub fn property() -> Property {
    Property {
        id: "C11",
        rule: "histories of 1..40 (thorough ..120) operations (set, unset, set_by_name with/without value, get_by_name, is_defined, get_all_var_names (with or without an output variable, which may be defined already), unset_all_vars with/without --prefix, clear_scope, scope_push_stack and scope_pop_stack with/without --copy lists naming defined, undefined and repeated names, pops on an empty stack, and now and then an unrelated script-implemented command that fails and must leave variables and saved maps alone) over 8 names (prefix-sharing, '::' names, names holding another name's prefix in the middle) and hazard values, each executed as one run_instruction on a persistent SDK context; after EVERY step the command result and the whole variable map are compared with HashMap + Vec<HashMap>; one history in six is continued (mostly with pops) on a clone of the context taken at an earlier step, after the original went on, against a clone of the model; (deep-stack) 257..336 pushes open at once, each level marked, then popped last-in-first-out plus one pop too many. Non-trivial: push depth >= 2 with a --copy, or a failed pop followed by more operations; distinct by history",
        assumptions: &[
            "values are free of '$', '%' and backslash (binding of such values is C02's subject)",
            "for a name undefined when copied on pop only the absence of a failure and the rest of the map are compared (the model adopts the observed value of that name)",
            "the text of the error of a failed pop is not compared, only that it is the error result",
        ],
        sections: vec![
            Section {
                name: "histories",
                plan: |t| match t {
                    Tier::Quick => Plan::Random { cases: 200_000, max_len: 400 },
                    Tier::Thorough => Plan::Random { cases: 10_000_000, max_len: 500 },
                },
                case: case_q,
                min_classes: &[("pop-on-empty-stack", 2000), ("pop-copy-of-undefined-name", 2000), ("push-depth-2", 2000), ("listing-assigned-to-a-variable-that-is-already-defined", 2000), ("history-continued-on-a-clone-with-open-pushes", 5000), ("unrelated-script-command-fails-in-between", 5000)],
            },
            Section {
                name: "deep-stack",
                plan: |t| match t {
                    Tier::Quick => Plan::Random { cases: 300, max_len: 1500 },
                    Tier::Thorough => Plan::Random { cases: 6_000, max_len: 1500 },
                },
                case: case_deep,
                min_classes: &[("push-depth-over-256", 200)],
            },
            Section {
                name: "long-histories",
                plan: |t| match t {
                    Tier::Quick => Plan::Skip,
                    Tier::Thorough => Plan::Random { cases: 1_500_000, max_len: 1200 },
                },
                case: case_t,
                min_classes: &[],
            },
        ],
        probes: vec![],
    }
}
