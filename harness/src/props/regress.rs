//! Replay tier: the concrete inputs of every defect that was found and repaired (DESIGN.md 6.3), written out as
//! plain scripts with their expected observations. They bypass the generators, so they keep meaning the same thing
//! when a generator changes. Each property with repaired defects gets a section `regressions` (exhaustive).

use crate::engine::*;
use crate::hz::*;
use duckscript::types::command::{Command, CommandInvocationContext, CommandResult, Commands};
use serde_json::json;

pub struct Reg {
    pub prop: &'static str,
    pub name: &'static str,
    /// script run with the SDK + harness commands; `put i` serves `side[i]`
    pub script: &'static str,
    pub side: &'static [&'static str],
    /// expected final variables (None = must be undefined)
    pub vars: &'static [(&'static str, Option<&'static str>)],
    /// expected argument vectors of the harness `cap` / `emit` invocations, in order (None = not compared)
    pub trace: Option<&'static [&'static [&'static str]]>,
    /// the run must succeed
    pub ok: bool,
}

pub const REGS: &[Reg] = &[
    Reg { prop: "C06", name: "leading-group-then-or", script: "r = not ( false ) or true\nq = not ( true ) or false\n", side: &[], vars: &[("r", Some("false")), ("q", Some("false"))], trace: None, ok: true },
    Reg {
        prop: "C04",
        name: "canonical-else-names",
        script: "if false\n    emit wrong\nstd::flowcontrol::ElseIf false\n    emit wrong2\nstd::flowcontrol::Else\n    emit right\nend\nemit done\n",
        side: &[],
        vars: &[],
        trace: Some(&[&["right"], &["done"]]),
        ok: true,
    },
    Reg {
        prop: "C11",
        name: "scope-copy-undefined-and-repeated",
        script: "a = set 1\nx = scope_push_stack --copy a nope a\ninner = set 2\ny = scope_pop_stack --copy nope inner inner\n",
        side: &[],
        vars: &[("a", Some("1")), ("inner", Some("2")), ("y", Some("true"))],
        trace: None,
        ok: true,
    },
    Reg {
        prop: "C16",
        name: "substring-inside-character-and-negative-start",
        script: "s = put 0\na = substring ${s} 0 2\nb = substring hello -2 3\nc = substring ${s} 0 3\n",
        side: &["héllo"],
        vars: &[("a", Some("false")), ("b", Some("false")), ("c", Some("hé"))],
        trace: None,
        ok: true,
    },
    Reg { prop: "C02", name: "spread-of-spaces-only", script: "v = put 0\ncap %{v}\ncap a %{v} b\n", side: &["   "], vars: &[], trace: Some(&[&[], &["a", "b"]]), ok: true },
    Reg { prop: "C02", name: "lone-percent-is-plain-text", script: "x = put 0\ncap \"${x} is 50% done \" \"\\${%}aa \"\n", side: &["it"], vars: &[], trace: Some(&[&["it is 50% done ", "${%}aa "]]), ok: true },
    Reg {
        prop: "C10",
        name: "error-message-not-expanded-again",
        script: "price = set 42\ne = trigger_error \"cost \\${price} and \\\\%{price}\"\nm = get_last_error\nl = get_last_error_line\n",
        side: &[],
        vars: &[("e", Some("false")), ("m", Some("cost ${price} and %{price}")), ("l", Some("2"))],
        trace: None,
        ok: true,
    },
    Reg { prop: "C07", name: "random-range-empty", script: "r = random_range 5 5\nq = random_range 5 4\n", side: &[], vars: &[("r", Some("false")), ("q", Some("false"))], trace: None, ok: true },
    Reg { prop: "C07", name: "join-path-with-line-break", script: "p = put 0\nr = join_path ${p} c\nemit done\n", side: &["a/\n/b"], vars: &[], trace: Some(&[&["done"]]), ok: true },
    Reg {
        prop: "C07",
        name: "json-encode-cyclic-collection",
        script: "m = map\nx = map_put ${m} self ${m}\nj = json_encode --collection ${m}\na = array\nx = array_push ${a} ${m}\nx = map_put ${m} back ${a}\nk = json_encode --collection ${a}\nemit done\n",
        side: &[],
        vars: &[("j", Some("false")), ("k", Some("false"))],
        trace: Some(&[&["done"]]),
        ok: true,
    },
    Reg {
        prop: "C07",
        name: "env-name-with-equals-sign-or-nul",
        script: "r = set_env \"a=b\" c\nk = put 0\ns = set_env ${k} v\nw = set_env DSVERIF_REGRESSION_NAME ${k}\nu = unset_env \"x=y\"\nu2 = unset_env ${k}\nemit done\n",
        side: &["nul\0inside"],
        vars: &[("r", Some("false")), ("s", Some("false")), ("w", Some("false"))],
        trace: Some(&[&["done"]]),
        ok: true,
    },
    Reg {
        prop: "C17",
        name: "properties-key-starting-with-u-feff",
        script: "m = map\nk = put 0\nx = map_put ${m} ${k} v1\nt = map_to_properties ${m}\nn = map\nx = map_load_properties ${n} ${t}\na = map_get ${n} ${k}\ns = map_size ${n}\nx = unset x t m n k\n",
        side: &["\u{feff}"],
        vars: &[("a", Some("v1")), ("s", Some("1"))],
        trace: None,
        ok: true,
    },
    Reg {
        prop: "C17",
        name: "properties-trailing-space-latin1-astral",
        script: "m = map\nv = put 0\nx = map_put ${m} k ${v}\nw = put 1\nx = map_put ${m} ${w} ${w}\nt = map_to_properties ${m}\nn = map\nx = map_load_properties ${n} ${t}\na = map_get ${n} k\nb = map_get ${n} ${w}\nx = unset x t m n v\n",
        side: &["v ", "é😀"],
        vars: &[("a", Some("v ")), ("b", Some("é😀"))],
        trace: None,
        ok: true,
    },
    Reg {
        prop: "C05",
        name: "for-in-left-by-return-then-called-again",
        script: "arr = array a b c\nfn first\n    for x in ${arr}\n        return ${x}\n    end\nend\nr1 = first\nr2 = first\nr3 = first\nemit ${r1} ${r2} ${r3}\n",
        side: &[],
        vars: &[],
        trace: Some(&[&["a", "a", "a"]]),
        ok: true,
    },
    Reg {
        prop: "C05",
        name: "recursive-call-reaches-the-same-for-line",
        script: "arr = array a b\nfn rec\n    lvl = set ${1}\n    for y in ${arr}\n        if equals ${lvl} 0\n            rec 1\n            lvl = set 0\n        end\n        emit ${lvl} ${y}\n    end\nend\nrec 0\n",
        side: &[],
        // outer a: inner visits a, b; then outer prints (y is global and was left at b by the inner loop)
        vars: &[],
        trace: Some(&[&["1", "a"], &["1", "b"], &["0", "b"], &["1", "a"], &["1", "b"], &["0", "b"]]),
        ok: true,
    },
    Reg {
        prop: "C12",
        name: "script-command-failing-in-a-loop-does-not-resume",
        script: "a = array_concat bad bad\nb = array_concat bad bad\nc = array_concat bad bad\nd = array_concat bad bad\n",
        side: &[],
        vars: &[("a", Some("false")), ("b", Some("false")), ("c", Some("false")), ("d", Some("false"))],
        trace: None,
        ok: true,
    },
    Reg {
        prop: "C15",
        name: "function-redefinable-after-removal-and-unalias-bookkeeping",
        script: "fn std::Echo\n    emit refused-body\nend\nr1 = remove_command echo\nfn std::Echo\n    emit mine\nend\nstd::Echo\na1 = alias foo hz_capture tag\nr2 = remove_command foo\nfn foo\n    emit foo-fn\nend\nu = unalias foo\nd = is_command_defined foo\nfoo\n",
        side: &[],
        vars: &[("r1", Some("true")), ("a1", Some("true")), ("r2", Some("true")), ("u", Some("false")), ("d", Some("true"))],
        trace: Some(&[&["refused-body"], &["mine"], &["foo-fn"]]),
        ok: true,
    },
];

#[derive(Clone)]
struct NamedCmd(&'static str, Vec<String>);
impl Command for NamedCmd {
    fn name(&self) -> String {
        self.0.to_string()
    }
    fn aliases(&self) -> Vec<String> {
        self.1.clone()
    }
    fn clone_and_box(&self) -> Box<dyn Command> {
        Box::new(self.clone())
    }
    fn run(&self, _c: CommandInvocationContext) -> CommandResult {
        CommandResult::Continue(Some(self.0.to_string()))
    }
}

/// API-level regression of the registry defect (C15 / F8)
fn registry_regression() -> Result<(), String> {
    let mut c = Commands::new();
    let mk = |n: &'static str, a: &[&str]| Box::new(NamedCmd(n, a.iter().map(|s| s.to_string()).collect())) as Box<dyn Command>;
    c.set(mk("A", &["a"])).map_err(|e| e.to_string())?;
    c.set(mk("a", &[])).map_err(|e| e.to_string())?;
    c.set(mk("C", &["a"])).map_err(|e| e.to_string())?;
    if !c.remove("A") {
        return Err("remove(A) returned false".into());
    }
    match c.get("a").map(|x| x.name()) {
        Some(n) if n == "C" => Ok(()),
        other => Err(format!("after set(A[a]); set(a[]); set(C[a]); remove(A): get(a) = {:?}, expected C", other)),
    }
}

fn run_reg(prop: &'static str, t: &mut Tape) -> Verdict {
    let idx = (((t.raw() as u64) << 32) | t.raw() as u64) as usize;
    let mine: Vec<&Reg> = REGS.iter().filter(|r| r.prop == prop).collect();
    if prop == "C15" && idx == mine.len() {
        return match registry_regression() {
            Ok(()) => Verdict::Pass(Some(fp(&"registry"))),
            Err(e) => fail("C15/regression/registry-remove", json!(e)),
        };
    }
    let r = match mine.get(idx) {
        Some(r) => *r,
        None => return Verdict::Discard("no such regression"),
    };
    hz_reset();
    with_hz(|h| h.side = r.side.iter().map(|s| s.to_string()).collect());
    let out = match guarded(|| run_text(r.script, sdk_context(), 50_000, None)) {
        Ok(o) => o,
        Err((m, l)) => return fail(&format!("{}/regression/{}", prop, r.name), json!({"script": r.script, "panic": m, "location": l})),
    };
    let sig = format!("{}/regression/{}", prop, r.name);
    if out.fuel_exhausted || out.depth_exceeded {
        return fail(&sig, json!({"script": r.script, "problem": "did not finish"}));
    }
    let trace: Vec<Vec<String>> = with_hz(|h| h.trace.iter().filter(|e| e.cmd == "emit" || e.cmd == "cap").map(|e| e.args.clone()).collect());
    let ctx = match out.result {
        Ok(c) => c,
        Err(e) => {
            if r.ok {
                return fail(&sig, json!({"script": r.script, "problem": "run failed", "error": format!("{:?}", e)}));
            }
            return Verdict::Pass(Some(fp(&r.name)));
        }
    };
    for (k, v) in r.vars {
        let got = ctx.variables.get(*k).map(|s| s.as_str());
        if got != *v {
            return fail(&sig, json!({"script": r.script, "variable": k, "expected": v, "got": got}));
        }
    }
    if let Some(want) = r.trace {
        let want: Vec<Vec<String>> = want.iter().map(|a| a.iter().map(|s| s.to_string()).collect()).collect();
        if trace != want {
            return fail(&sig, json!({"script": r.script, "expected_invocations": want, "got": trace}));
        }
    }
    Verdict::Pass(Some(fp(&r.name)))
}

pub fn count(prop: &str) -> u64 {
    REGS.iter().filter(|r| r.prop == prop).count() as u64 + if prop == "C15" { 1 } else { 0 }
}

macro_rules! reg_fns {
    ($($f:ident $p:ident $id:expr),*) => {
        $(
            fn $f(t: &mut Tape, _st: &mut Stats) -> Verdict { run_reg($id, t) }
            fn $p(_t: Tier) -> Plan { Plan::Exhaustive { count: count($id) } }
        )*
        /// the `regressions` section of a property, if it has repaired defects
        pub fn section(id: &str) -> Option<Section> {
            match id {
                $( $id => Some(Section { name: "regressions", plan: $p, case: $f, min_classes: &[] }), )*
                _ => None,
            }
        }
    };
}

reg_fns!(c02 p02 "C02", c04 p04 "C04", c05 p05 "C05", c06 p06 "C06", c07 p07 "C07", c10 p10 "C10", c11 p11 "C11", c12 p12 "C12", c15 p15 "C15", c16 p16 "C16", c17 p17 "C17");
