//! C13 — setting the halt flag stops the run at the next instruction boundary.

use crate::engine::*;
use crate::flow::*;
use crate::hz::*;
use crate::props::c03;
use crate::props::c04::ensure_spellings;
use duckscript::types::command::{Command, CommandInvocationContext, CommandResult};
use duckscript::types::runtime::Context;
use serde_json::json;
use std::collections::HashMap;
use std::sync::atomic::{AtomicBool, AtomicU64, Ordering};
use std::sync::Arc;

#[derive(Clone, Copy, PartialEq, Debug)]
enum Kind {
    Scripted,
    Structured,
    StructuredForever,
    /// a scripted program some of whose instructions run another script (same commands, same halt flag) to its end
    Nested,
}

struct Prog {
    text: String,
    kind: Kind,
    on_error: bool,
    /// the scripts run by `subrun i`
    subs: Vec<String>,
}

/// `subrun i`: what an embedder's include-style command does - runs script i with the runner, on the commands and a
/// copy of the variables of the caller, handing it the caller's halt flag; whatever the nested run returns, continue.
#[derive(Clone)]
struct SubRunCmd;
impl Command for SubRunCmd {
    fn name(&self) -> String {
        "hz::SubRun".into()
    }
    fn aliases(&self) -> Vec<String> {
        vec!["subrun".into()]
    }
    fn clone_and_box(&self) -> Box<dyn Command> {
        Box::new(self.clone())
    }
    fn run(&self, c: CommandInvocationContext) -> CommandResult {
        let i: usize = c.arguments.first().and_then(|a| a.parse().ok()).unwrap_or(usize::MAX);
        let (text, before) = with_hz(|h| (h.side.get(i).cloned(), h.invocations));
        let text = match text {
            Some(t) => t,
            None => return CommandResult::Crash("hz::SubRun: bad index".into()),
        };
        let mut ctx = Context::new();
        ctx.commands = c.commands.clone();
        ctx.variables = c.variables.clone();
        let (env, _out) = make_env(Some(c.env.halt.clone()));
        let _ = duckscript::runner::run_script(&text, ctx, Some(env));
        with_hz(|h| {
            if let Some(k) = h.halt_at {
                if before < k && k <= h.invocations {
                    h.counters.insert("halt-inside-nested-run".into(), 1);
                }
            }
        });
        CommandResult::Continue(None)
    }
}

fn gen_prog(t: &mut Tape, st: &mut Stats) -> Prog {
    match t.weighted(&[3, 3, 2, 2]) {
        0 => {
            let mut text = c03::program_text(t, st, 30);
            // sometimes with lines that only name an output variable (`x =` clears x): instructions like any other,
            // they must not run once the flag is up
            if t.chance(1, 3) {
                let mut lines: Vec<String> = text.lines().map(|l| l.to_string()).collect();
                for _ in 0..1 + t.below(3) {
                    let at = t.below(lines.len() + 1);
                    lines.insert(at, format!("{} =", t.pick(&["x", "y", "z", "r"])));
                }
                text = lines.join("\n");
                text.push('\n');
                st.class("program-with-output-only-lines");
            }
            Prog { text, kind: Kind::Scripted, on_error: t.flip(), subs: vec![] }
        }
        3 => {
            st.class("program-with-nested-runs");
            let nsubs = 1 + t.below(2);
            let subs: Vec<String> = (0..nsubs).map(|_| c03::program_text(t, st, 8)).collect();
            let outer = c03::program_text(t, st, 12);
            let mut lines: Vec<String> = outer.lines().map(|l| l.to_string()).collect();
            let inserts = 1 + t.below(3);
            for _ in 0..inserts {
                let at = t.below(lines.len() + 1);
                lines.insert(at, format!("subrun {}", t.below(nsubs)));
            }
            let mut text = lines.join("\n");
            text.push('\n');
            if t.chance(1, 3) {
                st.class("non-terminating-program");
                // the context of these programs has no goto command: the scripted command does the jump
                text = format!(":again emit 9999\n{}res gl :again 1000000 0 -\n", text);
            }
            Prog { text, kind: Kind::Nested, on_error: t.flip(), subs }
        }
        k => {
            let p = gen_program(t, GenCfg { breaks: false, functions: false, failures: false, max_depth: 4, max_stmts: 30, long_loops: false, probe_conditions: false, lib_calls: false });
            let r = render(&p, t, false);
            if k == 1 {
                Prog { text: r.text, kind: Kind::Structured, on_error: false, subs: vec![] }
            } else {
                // a script that would otherwise loop forever
                st.class("non-terminating-program");
                let spelling = *t.pick_ref(&["while true", "while tick forever 1000000", ":again"]);
                let text = if spelling == ":again" { format!(":again emit 9999\n{}goto :again\n", r.text) } else { format!("{}\n{}end\n", spelling, r.text) };
                Prog { text, kind: Kind::StructuredForever, on_error: false, subs: vec![] }
            }
        }
    }
}

fn context_for(p: &Prog) -> duckscript::types::runtime::Context {
    match p.kind {
        Kind::Scripted => {
            let mut c = bare_context();
            c03::register(&mut c, p.on_error);
            c
        }
        Kind::Nested => {
            let mut c = bare_context();
            c03::register(&mut c, p.on_error);
            c.commands.set(Box::new(SubRunCmd)).unwrap();
            c
        }
        _ => sdk_context(),
    }
}

/// fresh harness state for one run of `p`
fn prep(p: &Prog) {
    hz_reset();
    c03::reset_state(vec![0]);
    with_hz(|h| h.side = p.subs.clone());
}

fn event_lines() -> Vec<usize> {
    with_hz(|h| h.trace.iter().map(|e| e.line).collect())
}

fn events() -> Vec<(String, Vec<String>)> {
    // handles are random opaque tokens: compare them as one symbol
    with_hz(|h| h.trace.iter().map(|e| (e.cmd.clone(), e.args.iter().map(|a| if a.starts_with("handle:") { "<handle>".to_string() } else { a.clone() }).collect())).collect())
}

const REF_FUEL: u64 = 6_000;

/// (a) the k-th harness invocation raises the flag from inside the script
fn case_internal(t: &mut Tape, st: &mut Stats) -> Verdict {
    ensure_spellings();
    let p = gen_prog(t, st);
    // reference: the same program without a halt (cut by fuel when it does not terminate)
    prep(&p);
    let r0 = run_text(&p.text, context_for(&p), REF_FUEL, None);
    let reference = events();
    if reference.is_empty() {
        return Verdict::Discard("program invokes no harness command");
    }
    if r0.depth_exceeded {
        return Verdict::Discard("reference run exceeded the nesting limit");
    }
    let terminating = !r0.fuel_exhausted;
    // boundaries: every one for small programs, sampled otherwise
    let n = reference.len();
    let ks: Vec<usize> = if n <= 12 { (1..=n).collect() } else { (0..8).map(|_| 1 + t.below(n.min(400))).collect() };
    let keep_clone = t.flip();
    let mut nontrivial = false;
    for k in ks {
        prep(&p);
        with_hz(|h| h.halt_at = Some(k as u64));
        // one halting point in four: an earlier invocation replaced the env's halt token by a fresh one (a command that
        // arms a new cancel token); the flag raised later through the env is the one that counts. Not in programs with
        // nested runs: a nested run has an env of its own, and a token replaced there is not the outer run's
        if k >= 2 && p.subs.is_empty() && t.chance(1, 4) {
            let j = 1 + t.below(k - 1);
            with_hz(|h| h.rearm_at = Some(j as u64));
            st.class("halt-token-replaced-by-an-earlier-command");
        }
        // the embedder either keeps a clone of the flag or hands its only reference to the env
        let flag = Arc::new(AtomicBool::new(false));
        let out = if keep_clone { run_text(&p.text, context_for(&p), REF_FUEL * 2, Some(flag.clone())) } else { run_text(&p.text, context_for(&p), REF_FUEL * 2, None) };
        st.class(if keep_clone { "embedder-keeps-flag-clone" } else { "flag-only-reachable-through-env" });
        let got = events();
        let snapshot = with_hz(|h| h.halt_snapshot.clone());
        let inside_nested = with_hz(|h| h.counters.contains_key("halt-inside-nested-run"));
        if inside_nested {
            st.class("halt-raised-inside-nested-run");
            nontrivial = true;
        }
        let halting = &reference[k - 1];
        let kind_class = match halting.0.as_str() {
            "res" => match halting.1.first().map(|s| s.as_str()) {
                Some("gl") | Some("gn") => "halt-during-jumping-command",
                Some("err") => "halt-during-failing-command",
                _ => "halt-during-plain-command",
            },
            "on_error" => "halt-during-error-handler",
            "tick" | "tock" => "halt-during-loop-condition-or-assignment",
            _ => "halt-during-plain-command",
        };
        st.class(kind_class);
        if kind_class != "halt-during-plain-command" {
            nontrivial = true;
        }
        let detail = |what: &str, extra: serde_json::Value| {
            json!({"script": p.text, "halt_raised_by_invocation": k, "embedder_keeps_flag_clone": keep_clone, "mismatch": what, "detail": extra,
                   "reference_prefix": reference.iter().take(k + 2).collect::<Vec<_>>(), "actual_trace_tail": got.iter().skip(k.saturating_sub(2)).take(6).collect::<Vec<_>>(), "actual_len": got.len()})
        };
        if out.fuel_exhausted {
            return fail(&format!("C13/internal/{}/halt-ignored", kind_class), detail("the run did not stop (fuel exhausted) although the flag was raised", json!(null)));
        }
        // the error handler call belongs to the handling of the failing instruction that is in flight
        let kk = if reference.get(k).map(|e| e.0 == "on_error").unwrap_or(false) { k + 1 } else { k };
        let lines = event_lines();
        let ctx = match out.result {
            Ok(c) => c,
            Err(e) => {
                // legitimate only when the instruction in flight is itself the one that ends the run with a failure
                let err_line = match &e {
                    duckscript::types::error::ScriptError::Runtime(_, Some(m)) => m.line,
                    _ => None,
                };
                let inflight_line = lines.get(k - 1).map(|l| l + 1);
                if !inside_nested && terminating && r0.result.is_err() && kk == n && got.len() == kk && err_line.is_some() && err_line == inflight_line {
                    st.class("in-flight-instruction-itself-failed");
                    continue;
                }
                return fail(&format!("C13/internal/{}/run-failed", kind_class), detail("halted run returned an error", json!(format!("{:?}", e))));
            }
        };
        let k = kk;
        if got.len() < k {
            // the reference itself ended before k (cannot happen: k <= reference length) unless behaviour diverged
            return fail(&format!("C13/internal/{}/trace-diverged", kind_class), detail("halted run is shorter than the halting point", json!(null)));
        }
        if got[..k] != reference[..k] {
            return fail(&format!("C13/internal/{}/trace-diverged", kind_class), detail("prefix differs from the un-halted run", json!(null)));
        }
        if got.len() > k {
            return fail(&format!("C13/internal/{}/instruction-started-after-halt", kind_class), detail("further harness commands ran after the flag was raised", json!({"extra": got.len() - k})));
        }
        // variables: the snapshot taken by the halting command (+ the in-flight instruction's own output)
        if inside_nested {
            // the snapshot was taken of the nested run's own copy of the variables: not comparable with the outer ones
        } else if let Some(snap) = snapshot {
            let out_var = with_hz(|h| h.trace.get(h.halt_at.unwrap_or(1) as usize - 1).and_then(|e| e.out.clone()));
            let mut a = ctx.variables.clone();
            let mut b = snap.clone();
            if let Some(o) = &out_var {
                // the in-flight instruction completes: a scripted command that continues or jumps has its output
                // variable set to the value it handed back (or unset when it handed back none) - also when it raised the
                // flag itself. Other commands: the output variable is left out of the comparison.
                let handed_back = with_hz(|h| if h.trace.get(k - 1).map(|e| e.cmd == "res").unwrap_or(false) { h.res_out.get(&(k as u64)).cloned() } else { None });
                match handed_back {
                    Some(Some(v)) => {
                        b.insert(o.clone(), v);
                        st.class("in-flight-instruction-with-output-variable-completes");
                    }
                    Some(None) => {
                        b.remove(o);
                        st.class("in-flight-instruction-with-output-variable-completes");
                    }
                    None => {
                        a.remove(o);
                        b.remove(o);
                    }
                }
            }
            // structured programs: an assignment line `v = tick ..` carries its output variable in the event as well
            if a != b {
                let diff: Vec<String> = a.keys().chain(b.keys()).filter(|k| a.get(*k) != b.get(*k)).cloned().collect();
                return fail(&format!("C13/internal/{}/variables-changed-after-halt", kind_class), detail("returned variables differ from those at the halting point", json!({"differing": diff})));
            }
        } else {
            return fail(&format!("C13/internal/{}/trace-diverged", kind_class), detail("halting invocation did not happen", json!(null)));
        }
    }
    // the boundary before the first instruction: a flag that is already up when the run reaches its first boundary
    // (raised while the text was still being read and parsed) - nothing may start
    if t.chance(1, 3) {
        st.class("flag-raised-before-the-first-instruction");
        prep(&p);
        let flag = Arc::new(AtomicBool::new(true));
        let out = run_text(&p.text, context_for(&p), REF_FUEL * 2, Some(flag.clone()));
        let got = events();
        let d = json!({"script": p.text, "mismatch": "the flag was already up when the run began", "harness_commands_that_ran": got.len(), "result_ok": out.result.is_ok()});
        if out.fuel_exhausted {
            return fail("C13/internal/before-first-instruction/halt-ignored", d);
        }
        match out.result {
            Err(_) => return fail("C13/internal/before-first-instruction/run-failed", d),
            Ok(c) => {
                if !got.is_empty() {
                    return fail("C13/internal/before-first-instruction/instruction-started-after-halt", d);
                }
                if !c.variables.is_empty() {
                    return fail("C13/internal/before-first-instruction/variables-changed-after-halt", d);
                }
            }
        }
    }
    if st.want_sample() && nontrivial {
        let tx = p.text.clone();
        st.sample(|| json!({"script": tx, "reference_invocations": n}));
    }
    Verdict::Pass(if nontrivial { Some(fp(&(&p.text, keep_clone))) } else { None })
}

/// (b) a second thread raises the flag at a random instant
fn case_thread(t: &mut Tape, st: &mut Stats) -> Verdict {
    ensure_spellings();
    let p = gen_prog(t, st);
    prep(&p);
    let r0 = run_text(&p.text, context_for(&p), REF_FUEL, None);
    let reference = events();
    if reference.len() < 2 || r0.depth_exceeded {
        return Verdict::Discard("program too short for a second-thread halt");
    }
    let j = 1 + t.below(reference.len().min(300) - 1);
    let spin = t.below(2000) as u64;
    prep(&p);
    let flag = Arc::new(AtomicBool::new(false));
    let gate = Arc::new(AtomicBool::new(false));
    let counter = Arc::new(AtomicU64::new(0));
    let done = Arc::new(AtomicBool::new(false));
    with_hz(|h| {
        h.gate_at = Some(j as u64);
        h.gate = Some(gate.clone());
        h.shared_counter = Some(counter.clone());
    });
    let (f2, g2, c2, d2) = (flag.clone(), gate.clone(), counter.clone(), done.clone());
    let helper = std::thread::spawn(move || {
        // wait for the gate (or the end of the run)
        while !g2.load(Ordering::SeqCst) {
            if d2.load(Ordering::SeqCst) {
                return None;
            }
            std::hint::spin_loop();
        }
        for _ in 0..spin {
            std::hint::spin_loop();
        }
        f2.store(true, Ordering::SeqCst);
        Some(c2.load(Ordering::SeqCst))
    });
    let out = run_text(&p.text, context_for(&p), REF_FUEL * 4, Some(flag.clone()));
    done.store(true, Ordering::SeqCst);
    let set_at = helper.join().unwrap_or(None);
    let got = events();
    let detail = |what: &str, extra: serde_json::Value| json!({"script": p.text, "gate_invocation": j, "flag_set_when_counter_was_at_most": set_at, "mismatch": what, "detail": extra, "actual_len": got.len(), "reference_len": reference.len()});
    let set_at = match set_at {
        Some(c) => c as usize,
        None => return Verdict::Discard("run ended before the helper thread was released"),
    };
    if out.fuel_exhausted {
        // a violation only if the run demonstrably went on after the flag was set; otherwise the helper was simply late
        if got.len() > set_at + 2 {
            return fail("C13/thread/halt-ignored", detail("the run did not stop after the flag was set by another thread", json!({"invocations_after_flag": got.len() - set_at})));
        }
        return Verdict::Discard("fuel ran out before the helper thread set the flag");
    }
    if got.len() >= reference.len() && !r0.fuel_exhausted {
        st.class("run-finished-before-flag-took-effect");
        return Verdict::Pass(None);
    }
    if let Err(e) = &out.result {
        // legitimate when the last instruction that ran (the one in flight) is itself the failing one
        let err_line = match e {
            duckscript::types::error::ScriptError::Runtime(_, Some(m)) => m.line,
            _ => None,
        };
        let lines = event_lines();
        let last_res_line = with_hz(|h| h.trace.iter().rev().find(|e| e.cmd != "on_error").map(|e| e.line + 1));
        let _ = lines;
        if err_line.is_some() && err_line == last_res_line {
            return Verdict::Pass(None);
        }
        // the program may fail by itself (e.g. an unknown command, which leaves no event) at a point the fuel-cut
        // reference never reached and before the late flag took effect: the same program, not halted, on the same
        // fuel, then fails at the same line after the same invocations
        prep(&p);
        let again = run_text(&p.text, context_for(&p), REF_FUEL * 4, None);
        let again_line = match &again.result {
            Err(duckscript::types::error::ScriptError::Runtime(_, Some(m))) => m.line,
            _ => None,
        };
        if err_line.is_some() && again_line == err_line && events() == got {
            st.class("program-failed-by-itself-before-the-flag-took-effect");
            return Verdict::Pass(None);
        }
        return fail("C13/thread/run-failed", detail("halted run returned an error", json!(format!("{:?}", e))));
    }
    let l = got.len().min(reference.len());
    // a reference that was cut by fuel is only a prefix of the real behaviour: the halted run may be longer than it
    if got[..l] != reference[..l] || (got.len() > reference.len() && !r0.fuel_exhausted) {
        return fail("C13/thread/trace-diverged", detail("trace is not a prefix of the un-halted run", json!(null)));
    }
    if got.len() < j {
        return fail("C13/thread/trace-diverged", detail("run stopped before the gate invocation", json!(null)));
    }
    // at most the instruction in flight may complete after the flag was set (one harness invocation per instruction)
    let extra_handler = got.last().map(|e| e.0 == "on_error").unwrap_or(false) as usize;
    if got.len() > set_at + 1 + extra_handler {
        return fail("C13/thread/ran-on-after-halt", detail("more than the in-flight instruction ran after the flag was set", json!({"invocations_after_flag": got.len() - set_at})));
    }
    st.class("second-thread-halt-took-effect");
    Verdict::Pass(Some(fp(&(&p.text, j))))
}

pub fn property() -> Property {
    let _ = HashMap::<u8, u8>::new();
    Property {
        id: "C13",
        rule: "(internal) programs over the scripted result-dictating command (goto loops, errors, on_error paths), structured while/for-in programs, scripted programs some of whose instructions run another script to its end through the runner on the same halt flag (what an include-style embedder command does; the flag may be raised inside such a nested run, which must stop the outer run too), and non-terminating wrappers (while true / while tick forever / label+goto) in which the k-th harness invocation raises the halt flag through the env it receives - k ranges over EVERY invocation of the un-halted reference run for runs of <= 12 invocations, 8 sampled otherwise - with the embedder either keeping a clone of the flag or not, one halting point in four after an earlier invocation replaced the env's halt token by a fresh one (and, one case in three, a run whose flag is already up when it reaches the boundary before its first instruction: nothing may start): the run must return Ok, its trace must equal the reference trace cut after invocation k, no further harness command may run, and the returned variables must equal the snapshot the halting command took (its own output variable aside). (thread) the same programs with a helper thread released by invocation j that sets the flag after a random spin: Ok, a prefix of the reference trace of length >= j, and at most one invocation after the counter value the helper observed. Non-trivial: the halt lands on a jumping, failing, error-handling or loop-condition instruction; distinct by (script, configuration)",
        assumptions: &[
            "reference = the same program run without a halt (cut at 6000 instruction executions when it does not terminate); every top-level instruction of the generated programs invokes at most one harness command",
            "the second-thread schedule is sampled, not owned: a case whose run ends before the helper is released is discarded",
        ],
        sections: vec![
            Section {
                name: "internal",
                plan: |t| match t {
                    Tier::Quick => Plan::Random { cases: 30_000, max_len: 700 },
                    Tier::Thorough => Plan::Random { cases: 600_000, max_len: 800 },
                },
                case: case_internal,
                min_classes: &[("halt-during-jumping-command", 1000), ("halt-during-failing-command", 500), ("halt-during-loop-condition-or-assignment", 1000), ("non-terminating-program", 1000), ("flag-only-reachable-through-env", 5000), ("halt-raised-inside-nested-run", 1000), ("flag-raised-before-the-first-instruction", 3000), ("program-with-output-only-lines", 2000), ("halt-token-replaced-by-an-earlier-command", 2000)],
            },
            Section {
                name: "thread",
                plan: |t| match t {
                    Tier::Quick => Plan::Random { cases: 3_000, max_len: 700 },
                    Tier::Thorough => Plan::Random { cases: 60_000, max_len: 800 },
                },
                case: case_thread,
                min_classes: &[("second-thread-halt-took-effect", 150)],
            },
        ],
        probes: vec![],
    }
}
