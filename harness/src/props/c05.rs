//! C05 — functions: arguments, return values, early return, scoped isolation.

use crate::engine::*;
use crate::flow::*;
use crate::props::c04::{run_program, run_program_bounded};

fn nt_c05(m: &Model, classes: &std::collections::HashSet<&'static str>) -> bool {
    let called_twice = m.fn_calls.values().any(|c| *c >= 2);
    let early = classes.contains("return-from-inside-for") || classes.contains("return-from-inside-while") || classes.contains("return-from-inside-branch");
    (called_twice && early) || m.max_depth_seen >= 2
}

fn case_small(t: &mut Tape, st: &mut Stats) -> Verdict {
    let p = gen_program(t, GenCfg { breaks: true, functions: true, failures: false, max_depth: 4, max_stmts: 40, long_loops: false, probe_conditions: true, lib_calls: false });
    run_program(&p, t, st, "C05", nt_c05)
}

fn case_large(t: &mut Tape, st: &mut Stats) -> Verdict {
    let p = gen_program(t, GenCfg { breaks: false, functions: true, failures: false, max_depth: 6, max_stmts: 120, long_loops: false, probe_conditions: false, lib_calls: false });
    run_program(&p, t, st, "C05", nt_c05)
}


/// (deep-recursion) a function that calls itself from inside its own for-in loop 257..400 levels deep (hand-built
/// shapes, same reference interpreter): every level's loop is still open while the deeper ones run, and each must
/// resume where it was when the call returns.
fn case_deep(t: &mut Tape, st: &mut Stats) -> Verdict {
    let n = 257 + t.below(144) as u32;
    let two_level_loop = t.chance(1, 3);
    let returns_value = t.flip();
    let outer_repeats = t.chance(1, 3);
    let mut inner = vec![
        Stmt::If(vec![(Cond::Tick { neg: false, key: "deep".into(), n }, vec![Stmt::Call { out: None, f: 0, args: vec![Expr::Lit("d".into())] }])], None),
        Stmt::Emit(1, vec![Expr::Var("x".into())]),
    ];
    if two_level_loop {
        inner = vec![Stmt::ForIn("y".into(), Expr::Var("arr0".into()), inner), Stmt::Emit(3, vec![Expr::Var("y".into())])];
    }
    let mut body = vec![Stmt::ForIn("x".into(), Expr::Var("arr0".into()), inner), Stmt::Emit(2, vec![Expr::Lit("after-loop".into())])];
    if returns_value {
        body.push(Stmt::Return(Some(Expr::Var("x".into()))));
    }
    let call = Stmt::Call { out: if returns_value { Some("top".into()) } else { None }, f: 0, args: vec![Expr::Lit("t".into())] };
    let mut main = if outer_repeats { vec![Stmt::ForIn("o".into(), Expr::Var("arr1".into()), vec![call, Stmt::Emit(4, vec![Expr::Var("o".into())])])] } else { vec![call] };
    main.push(Stmt::Emit(9, vec![Expr::Lit("done".into())]));
    let p = Program { arrays: vec![vec!["a".into()], vec!["p".into(), "q".into()]], fns: vec![FnDef { name: "f0".into(), scoped: false, arity: 1, body }], main };
    let v = run_program_bounded(&p, t, st, "C05", |_, _| true, 30_000);
    if matches!(v, Verdict::Pass(_)) {
        st.class("self-recursion-through-a-for-in-loop-deeper-than-256");
    }
    v
}

pub fn property() -> Property {
    Property {
        id: "C05",
        rule: "C04's programs plus 1..4 function definitions (scoped or not, fixed arity, any keyword spelling) and calls as statements, output-assigning statements and in condition position (if f a / while p), returns at any depth inside loops and branches, function bodies that start with a for-in loop left by goto from inside a branch (the language's 'break') and then end normally or by a return, nested and self-recursive calls, repeated calls after early returns; (deep-recursion) a function calling itself from inside its own for-in loop 257..400 levels deep, in a few hand-built shapes (one or two loop levels, with or without a returned value, called once or from a loop); emit trace and final variables compared with the tree-walking interpreter extended with call frames (arguments bound to 1..n, return unwinds, no loop state outside the frame, scoped isolation). Non-trivial: a function called >= 2 times with an early return from inside a loop or branch, or call depth >= 2; distinct by script text",
        assumptions: &[
            "programs reaching a corner the property leaves open are discarded and counted: reading an output variable of a <scope> call that ended without a value while it held a value before; output variables of value-less calls made inside a function invoked in condition position; numeric argument variables after an intervening call; a body assigning its caller's pending output variable",
            "condition-position call arguments are plain words (the wrappers' re-serialisation is C09's subject)",
        ],
        sections: vec![
            Section {
                name: "programs",
                plan: |t| match t {
                    Tier::Quick => Plan::Random { cases: 160_000, max_len: 700 },
                    Tier::Thorough => Plan::Random { cases: 3_000_000, max_len: 900 },
                },
                case: case_small,
                min_classes: &[("return-from-inside-for", 300), ("return-from-inside-while", 300), ("return-from-inside-branch", 1000), ("scoped-call-with-value", 1000), ("scoped-call-without-value", 1000), ("call-in-condition-position", 1000), ("direct-recursion", 300), ("condition-call-with-the-same-words-cut-differently", 15), ("for-in-left-by-goto-inside-a-function", 2000)],
            },
            Section {
                name: "large-programs",
                plan: |t| match t {
                    Tier::Quick => Plan::Random { cases: 16_000, max_len: 2500 },
                    Tier::Thorough => Plan::Random { cases: 400_000, max_len: 3000 },
                },
                case: case_large,
                min_classes: &[],
            },
            Section {
                name: "deep-recursion",
                plan: |t| match t {
                    Tier::Quick => Plan::Random { cases: 160, max_len: 60 },
                    Tier::Thorough => Plan::Random { cases: 4_000, max_len: 60 },
                },
                case: case_deep,
                min_classes: &[("self-recursion-through-a-for-in-loop-deeper-than-256", 100)],
            },
        ],
        probes: vec![],
    }
}
