//! C16 — text, comparison and arithmetic commands compute the documented function.

use crate::engine::*;
use crate::hz::*;
use duckscript::runner;
use duckscript::types::command::CommandResult;
use duckscript::types::instruction::{Instruction, InstructionMetaInfo, InstructionType, ScriptInstruction};
use duckscript::types::runtime::Context;
use serde_json::json;

fn ins(cmd: &str, args: &[String]) -> Instruction {
    let mut si = ScriptInstruction::new();
    si.command = Some(cmd.to_string());
    si.arguments = Some(args.to_vec());
    Instruction { meta_info: InstructionMetaInfo::new(), instruction_type: InstructionType::Script(si) }
}

pub fn exec(ctx: &mut Context, cmd: &str, args: &[String]) -> CommandResult {
    let (mut env, _o) = make_env(None);
    runner::verif_fuel::set(100_000);
    runner::verif_fuel::set_depth_limit(NEST_LIMIT);
    let (r, _) = runner::run_instruction(&mut ctx.commands, &mut ctx.variables, &mut ctx.state, &vec![], ins(cmd, args), 0, &mut env);
    runner::verif_fuel::set(u64::MAX);
    runner::verif_fuel::set_depth_limit(usize::MAX);
    r
}

pub fn show(r: &CommandResult) -> String {
    match r {
        CommandResult::Continue(v) => format!("Continue({:?})", v),
        CommandResult::Error(e) => format!("Error({})", e),
        CommandResult::Crash(e) => format!("Crash({})", e),
        CommandResult::Exit(v) => format!("Exit({:?})", v),
        CommandResult::GoTo(v, _) => format!("GoTo({:?})", v),
    }
}

fn val(r: &CommandResult) -> Option<Option<String>> {
    match r {
        CommandResult::Continue(v) => Some(v.clone()),
        _ => None,
    }
}

fn is_err(r: &CommandResult) -> bool {
    matches!(r, CommandResult::Error(_))
}

const ALPHA: &[&str] = &["a", "b", "c", " ", "é", "ß", "İ", "日", "😀", "e\u{301}", "A", "Z", "\t", "ab", "-", ".", "/", "//", "0", "1", "\u{a0}", "x", "y", "ǅ", "ǈ", "ǲ", "ΐ", "ﬁ", "Σ", "ΑΣ", "σ"];

fn text(t: &mut Tape, max: usize) -> String {
    let n = t.len(max);
    let mut s = String::new();
    for _ in 0..n {
        s.push_str(t.pick(ALPHA));
    }
    s
}

// ---------------------------------------------------------------------------------------------
// substring grid
// ---------------------------------------------------------------------------------------------

const GRID: &[&str] = &["", "a", "abc", "héllo", "日本", "a😀", "ab cd", "ééé", "xe\u{301}y", "hello!", "ß", "😀"];

fn grid_count() -> u64 {
    GRID.iter()
        .map(|s| {
            let w = (2 * s.len() + 5) as u64;
            1 + w + 3 + w * w
        })
        .sum()
}

fn expect_substring(s: &str, a: Option<i64>, b: Option<i64>) -> Option<Result<String, ()>> {
    // None = unconstrained; Some(Ok(x)) = must return x; Some(Err) = must be the error result
    let len = s.len() as i64;
    match (a, b) {
        (None, None) => Some(Ok(s.to_string())),
        (Some(i), None) => {
            if i >= 0 {
                if i > len {
                    Some(Err(()))
                } else if i == len {
                    None
                } else if s.is_char_boundary(i as usize) {
                    Some(Ok(s[i as usize..].to_string()))
                } else {
                    Some(Err(()))
                }
            } else {
                let end = len + i;
                if end < 0 {
                    Some(Err(()))
                } else if s.is_char_boundary(end as usize) {
                    Some(Ok(s[..end as usize].to_string()))
                } else {
                    Some(Err(()))
                }
            }
        }
        (Some(i), Some(j)) => {
            if i < 0 || j < 0 || i > j || j > len || i > len {
                Some(Err(()))
            } else if j == len {
                None
            } else if s.is_char_boundary(i as usize) && s.is_char_boundary(j as usize) {
                Some(Ok(s[i as usize..j as usize].to_string()))
            } else {
                Some(Err(()))
            }
        }
        _ => None,
    }
}

fn check_substring(ctx: &mut Context, s: &str, a: Option<String>, b: Option<String>, st: &mut Stats) -> Verdict {
    let mut args = vec![s.to_string()];
    if let Some(a) = &a {
        args.push(a.clone());
    }
    if let Some(b) = &b {
        args.push(b.clone());
    }
    let pa = a.as_ref().map(|x| x.parse::<i64>());
    let pb = b.as_ref().map(|x| x.parse::<i64>());
    let non_numeric = matches!(pa, Some(Err(_))) || matches!(pb, Some(Err(_)));
    let exp = if non_numeric { Some(Err(())) } else { expect_substring(s, pa.map(|x| x.unwrap()), pb.map(|x| x.unwrap())) };
    let r = match guarded(|| exec(ctx, "substring", &args)) {
        Ok(r) => r,
        Err((m, l)) => return fail("C16/substring/panic", json!({"args": args, "panic": m, "location": l})),
    };
    let multibyte = s.len() != s.chars().count();
    if multibyte {
        st.class("substring-multibyte");
    }
    match exp {
        None => {
            st.class("substring-unconstrained-end-equals-length");
            Verdict::Pass(None)
        }
        Some(Ok(x)) => {
            if val(&r) == Some(Some(x.clone())) {
                Verdict::Pass(Some(fp(&args)))
            } else {
                fail("C16/substring/wrong-slice", json!({"args": args, "expected": x, "got": show(&r)}))
            }
        }
        Some(Err(())) => {
            if is_err(&r) {
                st.class("substring-out-of-domain-rejected");
                Verdict::Pass(Some(fp(&args)))
            } else {
                fail("C16/substring/out-of-domain-accepted", json!({"args": args, "expected": "error result", "got": show(&r)}))
            }
        }
    }
}

fn case_grid(t: &mut Tape, st: &mut Stats) -> Verdict {
    let mut idx = ((t.raw() as u64) << 32) | t.raw() as u64;
    let mut ctx = sdk_context();
    for s in GRID {
        let w = (2 * s.len() + 5) as u64;
        let n = 1 + w + 3 + w * w;
        if idx >= n {
            idx -= n;
            continue;
        }
        let lo = -(s.len() as i64) - 2;
        if idx == 0 {
            return check_substring(&mut ctx, s, None, None, st);
        }
        idx -= 1;
        if idx < w {
            return check_substring(&mut ctx, s, Some((lo + idx as i64).to_string()), None, st);
        }
        idx -= w;
        if idx < 3 {
            let bad = ["x", "", "1.5"][idx as usize].to_string();
            return if idx == 2 { check_substring(&mut ctx, s, Some("0".into()), Some(bad), st) } else { check_substring(&mut ctx, s, Some(bad), None, st) };
        }
        idx -= 3;
        let i = lo + (idx / w) as i64;
        let j = lo + (idx % w) as i64;
        return check_substring(&mut ctx, s, Some(i.to_string()), Some(j.to_string()), st);
    }
    Verdict::Discard("index out of grid")
}

// ---------------------------------------------------------------------------------------------
// naive references
// ---------------------------------------------------------------------------------------------

fn naive_find(h: &[u8], n: &[u8]) -> Option<usize> {
    if n.len() > h.len() {
        return None;
    }
    (0..=h.len() - n.len()).find(|&i| &h[i..i + n.len()] == n)
}

fn naive_rfind(h: &[u8], n: &[u8]) -> Option<usize> {
    if n.len() > h.len() {
        return None;
    }
    (0..=h.len() - n.len()).rev().find(|&i| &h[i..i + n.len()] == n)
}

fn naive_split(s: &str, p: &str) -> Vec<String> {
    // p non-empty
    let mut out = vec![];
    let mut rest = s;
    loop {
        match naive_find(rest.as_bytes(), p.as_bytes()) {
            Some(i) => {
                out.push(rest[..i].to_string());
                rest = &rest[i + p.len()..];
            }
            None => {
                out.push(rest.to_string());
                return out;
            }
        }
    }
}

fn naive_replace(s: &str, from: &str, to: &str) -> String {
    naive_split(s, from).join(to)
}

fn naive_trim_start(s: &str) -> &str {
    let mut i = 0;
    for (p, c) in s.char_indices() {
        if !c.is_whitespace() {
            return &s[p..];
        }
        i = p + c.len_utf8();
    }
    &s[i..]
}

fn naive_trim_end(s: &str) -> &str {
    let mut end = s.len();
    for (p, c) in s.char_indices().rev() {
        if !c.is_whitespace() {
            break;
        }
        end = p;
    }
    &s[..end]
}

fn read_array(ctx: &mut Context, h: &str) -> Option<Vec<String>> {
    let len: usize = val(&exec(ctx, "array_length", &[h.to_string()]))??.parse().ok()?;
    let mut v = vec![];
    for i in 0..len {
        v.push(val(&exec(ctx, "array_get", &[h.to_string(), i.to_string()]))??);
    }
    let _ = exec(ctx, "release", &[h.to_string()]);
    Some(v)
}

fn case_strings(t: &mut Tape, st: &mut Stats) -> Verdict {
    let mut ctx = sdk_context();
    let mut s = text(t, 10);
    // one text in a hundred and fifty is long: a filler character repeated to 16..200 KiB in front of the generated text
    let long = t.chance(1, 150);
    if long {
        let filler = *t.pick_ref(&["x", "é", "日", "-", "ab"]);
        let target = 16_000 + t.below(190_000);
        let mut f = String::with_capacity(target + 8);
        while f.len() < target {
            f.push_str(filler);
        }
        s = format!("{}{}", f, s);
        st.class("text-of-16-to-200-KiB");
    }
    // needle: a real substring, a longer string, or unrelated
    let chars: Vec<(usize, char)> = s.char_indices().collect();
    let needle = match t.weighted(&[5, 2, 1, 1]) {
        0 if !chars.is_empty() => {
            let a = t.below(chars.len());
            let b = a + t.below(chars.len() - a + 1);
            let start = chars[a].0;
            let end = if b < chars.len() { chars[b].0 } else { s.len() };
            s[start..end].to_string()
        }
        1 => text(t, 3),
        2 => format!("{}{}", s, text(t, 2)),
        _ => String::new(),
    };
    let multibyte = s.len() != s.chars().count();
    if multibyte {
        st.class("multibyte-haystack");
    }
    if needle.len() > s.len() {
        st.class("needle-longer-than-haystack");
    }
    let a = |x: &str| x.to_string();
    macro_rules! expect {
        ($cmd:expr, $args:expr, $want:expr) => {{
            let args: Vec<String> = $args;
            let r = match guarded(|| exec(&mut ctx, $cmd, &args)) {
                Ok(r) => r,
                Err((m, l)) => return fail(&format!("C16/{}/panic", $cmd), json!({"args": args, "panic": m, "location": l})),
            };
            let want: Option<String> = $want;
            if val(&r) != Some(want.clone()) {
                return fail(&format!("C16/{}/wrong-value", $cmd), json!({"args": args, "expected": want, "got": show(&r)}));
            }
            want
        }};
    }
    if t.chance(1, 40) {
        // indexes at the limits of the integer types: out of every text's domain, so the error result
        let ext = ["-9223372036854775808", "-9223372036854775807", "9223372036854775807", "18446744073709551615", "-2147483648", "4294967296", "-9223372036854775809"];
        let i = t.pick(&ext).to_string();
        let args = if t.flip() { vec![a(&s), i.clone()] } else if t.flip() { vec![a(&s), i.clone(), t.pick(&ext).to_string()] } else { vec![a(&s), "0".to_string(), i.clone()] };
        st.class("substring-index-at-an-integer-limit");
        let r = match guarded(|| exec(&mut ctx, "substring", &args)) {
            Ok(r) => r,
            Err((m, l)) => return fail("C16/substring/panic", json!({"args": args, "panic": m, "location": l})),
        };
        // (an end index beyond the text is out of domain as well: the text is at most some hundred KiB long)
        if !is_err(&r) && val(&r) != Some(Some("false".to_string())) {
            return fail("C16/substring/out-of-domain-accepted", json!({"args": args, "got": show(&r)}));
        }
        return Verdict::Pass(Some(fp(&args)));
    }
    let which = t.below(14);
    match which {
        0 | 1 => {
            // indexof / last_indexof / length / substring agree on one unit
            let want = naive_find(s.as_bytes(), needle.as_bytes());
            let i = expect!("indexof", vec![a(&s), a(&needle)], want.map(|x| x.to_string()));
            let wl = naive_rfind(s.as_bytes(), needle.as_bytes());
            expect!("last_indexof", vec![a(&s), a(&needle)], wl.map(|x| x.to_string()));
            expect!(*t.pick_ref(&["length", "strlen"]), vec![a(&s)], Some(s.len().to_string()));
            if let Some(i) = i {
                let i: usize = i.parse().unwrap();
                if i + 1 <= s.len() && !needle.is_empty() {
                    // substring(s, 0, indexof(s, t)) followed by t is a prefix of s
                    let r = exec(&mut ctx, "substring", &[a(&s), "0".to_string(), i.to_string()]);
                    match val(&r) {
                        Some(Some(pre)) => {
                            if !s.starts_with(&format!("{}{}", pre, needle)) {
                                return fail("C16/unit-consistency/prefix-relation", json!({"text": s, "needle": needle, "indexof": i, "substring_0_i": pre}));
                            }
                            let l = exec(&mut ctx, "length", &[pre.clone()]);
                            if val(&l) != Some(Some(i.to_string())) {
                                return fail("C16/unit-consistency/length-of-slice", json!({"text": s, "i": i, "slice": pre, "length": show(&l)}));
                            }
                            st.class("prefix-relation-checked");
                        }
                        _ => return fail("C16/unit-consistency/substring-rejects-indexof", json!({"text": s, "needle": needle, "indexof": i, "substring": show(&r)})),
                    }
                }
            }
        }
        2 => {
            expect!("contains", vec![a(&s), a(&needle)], Some(naive_find(s.as_bytes(), needle.as_bytes()).is_some().to_string()));
        }
        3 => {
            let w = s.as_bytes().len() >= needle.len() && &s.as_bytes()[..needle.len()] == needle.as_bytes();
            expect!("starts_with", vec![a(&s), a(&needle)], Some(w.to_string()));
        }
        4 => {
            let w = s.len() >= needle.len() && &s.as_bytes()[s.len() - needle.len()..] == needle.as_bytes();
            expect!("ends_with", vec![a(&s), a(&needle)], Some(w.to_string()));
        }
        5 => {
            let other = if t.flip() { s.clone() } else { needle.clone() };
            expect!(*t.pick_ref(&["equals", "eq"]), vec![a(&s), a(&other)], Some((s.as_bytes() == other.as_bytes()).to_string()));
        }
        6 => {
            expect!("is_empty", vec![a(&s)], Some((s.len() == 0).to_string()));
        }
        7 => {
            let n = t.len(4);
            let parts: Vec<String> = (0..n).map(|_| text(t, 3)).collect();
            let mut want = String::new();
            for p in &parts {
                want.push_str(p);
            }
            expect!("concat", parts.clone(), Some(want));
        }
        8 => {
            let to = text(t, 2);
            if needle.is_empty() {
                expect!("replace", vec![a(&s), a(&needle), a(&to)], Some(s.replace(&needle, &to)));
            } else {
                expect!("replace", vec![a(&s), a(&needle), a(&to)], Some(naive_replace(&s, &needle, &to)));
            }
        }
        9 => {
            if long && (needle.is_empty() || naive_split(&s, &needle).len() > 3000) {
                // reading tens of thousands of pieces back one by one is not worth the time
                return Verdict::Pass(None);
            }
            let args = vec![a(&s), a(&needle)];
            let r = exec(&mut ctx, "split", &args);
            let h = match val(&r) {
                Some(Some(h)) => h,
                _ => return fail("C16/split/wrong-value", json!({"args": args, "got": show(&r)})),
            };
            let pieces = match read_array(&mut ctx, &h) {
                Some(p) => p,
                None => return fail("C16/split/wrong-value", json!({"args": args, "got": "handle is not a readable array"})),
            };
            if pieces.join(&needle) != s {
                return fail("C16/split/join-relation", json!({"args": args, "pieces": pieces}));
            }
            if !needle.is_empty() && pieces != naive_split(&s, &needle) {
                return fail("C16/split/wrong-pieces", json!({"args": args, "pieces": pieces, "expected": naive_split(&s, &needle)}));
            }
            st.class("split-join-relation-checked");
        }
        10 => {
            let padded = format!("{}{}{}", t.pick(&["", " ", "\t ", "\n", "\u{a0}", "\u{2003}"]), s, t.pick(&["", " ", " \t", "\r\n", "\u{a0}"]));
            expect!("trim", vec![a(&padded)], Some(naive_trim_end(naive_trim_start(&padded)).to_string()));
            expect!("trim_start", vec![a(&padded)], Some(naive_trim_start(&padded).to_string()));
            expect!("trim_end", vec![a(&padded)], Some(naive_trim_end(&padded).to_string()));
        }
        11 => {
            expect!("uppercase", vec![a(&s)], Some(s.chars().flat_map(|c| c.to_uppercase()).collect::<String>()));
        }
        12 => {
            // the plain string operation, incl. its context-sensitive final sigma
            expect!("lowercase", vec![a(&s)], Some(s.to_lowercase()));
        }
        _ => {
            // random substring request consistent with char boundaries
            let i = t.range(-2, s.len() as i64 + 2);
            let j = t.range(-2, s.len() as i64 + 2);
            return check_substring(&mut ctx, &s, Some(i.to_string()), Some(j.to_string()), st);
        }
    }
    if st.want_sample() && multibyte && !needle.is_empty() {
        let (a1, a2) = (s.clone(), needle.clone());
        st.sample(|| json!({"operation_group": which, "text": a1, "needle": a2}));
    }
    Verdict::Pass(if multibyte || !needle.is_empty() { Some(fp(&(which, &s, &needle))) } else { None })
}

// ---------------------------------------------------------------------------------------------
// numbers
// ---------------------------------------------------------------------------------------------

#[derive(Clone, Copy, Debug)]
struct Num {
    m: i64,
    e: i32,
}

fn spell(n: Num, t: &mut Tape) -> String {
    if n.m == 0 && t.chance(1, 3) {
        // zero is zero however it is signed or padded
        return t.pick(&["-0", "-0.0", "0.0", "-0e3", "0", "00"]).to_string();
    }
    match t.below(4) {
        0 if n.e != 0 => format!("{}e{}", n.m, n.e),
        _ => {
            // plain decimal
            if n.e >= 0 {
                let mut s = n.m.to_string();
                for _ in 0..n.e {
                    s.push('0');
                }
                if t.chance(1, 4) {
                    s.push_str(".0");
                }
                s
            } else {
                let neg = n.m < 0;
                let digits = n.m.unsigned_abs().to_string();
                let k = (-n.e) as usize;
                let padded = if digits.len() <= k { format!("{}{}", "0".repeat(k - digits.len() + 1), digits) } else { digits };
                let (ip, fp_) = padded.split_at(padded.len() - k);
                format!("{}{}.{}", if neg { "-" } else { "" }, ip, fp_)
            }
        }
    }
}

fn cmp(a: Num, b: Num) -> std::cmp::Ordering {
    // compare a.m * 10^a.e with b.m * 10^b.e exactly
    let lo = a.e.min(b.e);
    let x = a.m as i128 * 10i128.pow((a.e - lo) as u32);
    let y = b.m as i128 * 10i128.pow((b.e - lo) as u32);
    x.cmp(&y)
}

fn case_numbers(t: &mut Tape, st: &mut Stats) -> Verdict {
    let mut ctx = sdk_context();
    // one pair in six is of tiny magnitude (1e-22 .. 1e-6): few significant digits, so the two decimals are either
    // equal as numbers or far apart relative to their size, whatever the absolute difference
    let tiny = t.chance(1, 6);
    let a = if tiny { Num { m: t.range(-999, 999), e: t.range(-22, -8) as i32 } } else { Num { m: t.range(-1_000_000_000, 1_000_000_000), e: t.range(-3, 3) as i32 } };
    if tiny {
        st.class("operands-of-tiny-magnitude");
    }
    // one pair in thirty is zero against zero / one / minus one, zero being written with or without a sign
    let zeroes = t.chance(1, 30);
    let a = if zeroes { Num { m: 0, e: 0 } } else { a };
    if zeroes {
        st.class("zero-against-zero-or-one");
    }
    let b = match t.weighted(&[3, 3, 1]) {
        _ if zeroes => Num { m: t.range(-1, 1), e: 0 },
        0 if tiny => Num { m: t.range(-999, 999), e: a.e + t.range(-1, 1) as i32 },
        0 => Num { m: t.range(-1_000_000_000, 1_000_000_000), e: t.range(-3, 3) as i32 },
        1 => {
            st.class("operands-differ-in-last-digit");
            Num { m: a.m + t.range(-1, 1), e: a.e }
        }
        _ => a,
    };
    // one pair in twenty is two ADJACENT doubles, each written in its shortest form that reads back exactly: different
    // numbers, however close
    if t.chance(1, 20) {
        let x = f64::from_bits(0x3FB0_0000_0000_0000 + (t.raw() as u64) * 0x0000_0100_0001 % 0x0090_0000_0000_0000) * if t.flip() { -1.0 } else { 1.0 };
        let y = f64::from_bits(x.to_bits() + 1 + t.below(2) as u64);
        if x.is_finite() && y.is_finite() && x != y {
            st.class("adjacent-doubles");
            let (sx, sy) = (format!("{:?}", x), format!("{:?}", y));
            for (cmd, want) in [("less_than", x < y), ("greater_than", x > y)] {
                let r = exec(&mut ctx, cmd, &[sx.clone(), sy.clone()]);
                if val(&r) != Some(Some(want.to_string())) {
                    return fail(&format!("C16/{}/wrong-order", cmd), json!({"args": [sx, sy], "expected": want, "got": show(&r)}));
                }
                let r = exec(&mut ctx, cmd, &[sy.clone(), sx.clone()]);
                if val(&r) != Some(Some((!want).to_string())) {
                    return fail(&format!("C16/{}/wrong-order", cmd), json!({"args": [sy, sx], "expected": !want, "got": show(&r)}));
                }
            }
            return Verdict::Pass(Some(fp(&(sx, sy))));
        }
    }
    let bad = t.chance(1, 12);
    let sa = spell(a, t);
    let sb = if bad { t.pick(&["x", "", "1,5", "0x10", "one", " 1"]).to_string() } else { spell(b, t) };
    for (cmd, want) in [("less_than", cmp(a, b) == std::cmp::Ordering::Less), ("greater_than", cmp(a, b) == std::cmp::Ordering::Greater)] {
        let (x, y) = if bad && t.flip() { (sb.clone(), sa.clone()) } else { (sa.clone(), sb.clone()) };
        let swapped = bad && x == sb && sa != sb;
        let r = exec(&mut ctx, cmd, &[x.clone(), y.clone()]);
        if bad {
            if !is_err(&r) {
                return fail(&format!("C16/{}/non-numeric-accepted", cmd), json!({"args": [x, y], "got": show(&r)}));
            }
            st.class("non-numeric-operand");
        } else {
            let _ = swapped;
            if val(&r) != Some(Some(want.to_string())) {
                return fail(&format!("C16/{}/wrong-order", cmd), json!({"args": [x, y], "expected": want, "got": show(&r)}));
            }
        }
    }
    Verdict::Pass(Some(fp(&(a.m, a.e, b.m, b.e, sa, sb))))
}

// calc: expressions over + - * with parentheses, exact integer division, decimals with finite binary expansion
#[derive(Clone, Debug)]
enum E {
    Int(i64),
    Dec(i64, u32), // value = n / 2^k, written as a decimal literal
    Bin(Box<E>, char, Box<E>),
}

fn gen_e(t: &mut Tape, depth: usize, float: bool) -> E {
    if depth == 0 || t.chance(1, 3) {
        if float && t.flip() {
            E::Dec(t.range(-200, 200), t.below(4) as u32)
        } else {
            E::Int(t.range(-100, 100))
        }
    } else {
        let op = *t.pick_ref(&['+', '-', '*']);
        E::Bin(Box::new(gen_e(t, depth - 1, float)), op, Box::new(gen_e(t, depth - 1, float)))
    }
}

fn eval_e(e: &E) -> f64 {
    match e {
        E::Int(i) => *i as f64,
        E::Dec(n, k) => *n as f64 / (1u64 << k) as f64,
        E::Bin(a, op, b) => {
            let (x, y) = (eval_e(a), eval_e(b));
            match op {
                '+' => x + y,
                '-' => x - y,
                _ => x * y,
            }
        }
    }
}

fn render_e(e: &E, top: bool) -> String {
    match e {
        E::Int(i) => {
            if *i < 0 {
                format!("({})", i)
            } else {
                i.to_string()
            }
        }
        E::Dec(n, k) => {
            let v = *n as f64 / (1u64 << k) as f64;
            let s = format!("{:?}", v); // always has a decimal point
            if v < 0.0 {
                format!("({})", s)
            } else {
                s
            }
        }
        E::Bin(a, op, b) => {
            let s = format!("{} {} {}", render_e(a, false), op, render_e(b, false));
            if top {
                s
            } else {
                format!("({})", s)
            }
        }
    }
}

fn case_calc(t: &mut Tape, st: &mut Stats) -> Verdict {
    let mut ctx = sdk_context();
    let float = t.flip();
    let (text, want) = if t.chance(1, 8) {
        // large magnitudes: products of powers of two written as decimals (exact in binary floating point), up to 2^120
        st.class("result-of-large-magnitude");
        let n = 2 + t.below(2);
        let mut text = String::new();
        let mut want = 1f64;
        for i in 0..n {
            let e = *t.pick_ref(&[20u32, 31, 32, 33, 40, 52, 53]);
            let v = (2f64).powi(e as i32) * if t.chance(1, 4) { -1.0 } else { 1.0 };
            if i > 0 {
                text.push_str(" * ");
            }
            text.push_str(&if v < 0.0 { format!("({:?})", v) } else { format!("{:?}", v) });
            want *= v;
        }
        (text, want)
    } else if t.chance(1, 6) {
        // exact integer division
        let b = t.range(1, 50) * if t.flip() { 1 } else { -1 };
        let q = t.range(-200, 200);
        st.class("exact-integer-division");
        (format!("{} / {}", render_e(&E::Int(b * q), false), render_e(&E::Int(b), false)), q as f64)
    } else {
        let e = gen_e(t, 3, float);
        (render_e(&e, true), eval_e(&e))
    };
    if float {
        st.class("decimal-operands");
    }
    // the expression is passed as separate arguments or as one argument
    let args: Vec<String> = if t.flip() { text.split(' ').map(|s| s.to_string()).collect() } else { vec![text.clone()] };
    // a result does not depend on an earlier calc that failed (an incomplete operation, e.g. an operand that was an
    // undefined variable): one case in six is preceded by such a call
    if t.chance(1, 6) {
        let bad: Vec<String> = t.pick(&["10 -", "7 *", "( 2 + 3", "1 +", "4 / 0 +"]).split(' ').map(|s| s.to_string()).collect();
        let _ = guarded(|| exec(&mut ctx, "calc", &bad));
        st.class("calc-right-after-a-calc-that-failed");
    }
    let r = match guarded(|| exec(&mut ctx, "calc", &args)) {
        Ok(r) => r,
        Err((m, l)) => return fail("C16/calc/panic", json!({"expression": text, "panic": m, "location": l})),
    };
    match val(&r) {
        Some(Some(v)) => match v.parse::<f64>() {
            Ok(x) if x == want => Verdict::Pass(Some(fp(&text))),
            _ => fail("C16/calc/wrong-value", json!({"expression": text, "expected": want, "got": v})),
        },
        _ => fail("C16/calc/wrong-value", json!({"expression": text, "expected": want, "got": show(&r)})),
    }
}

fn case_range(t: &mut Tape, st: &mut Stats) -> Verdict {
    let mut ctx = sdk_context();
    let a = t.range(-30, 30);
    let kind = t.below(6);
    let (sa, sb, want): (String, String, Option<Vec<String>>) = match kind {
        0 => {
            st.class("range-start-after-end");
            let b = a - 1 - t.below(5) as i64;
            (a.to_string(), b.to_string(), None)
        }
        1 => {
            st.class("range-non-numeric");
            (t.pick(&["x", "", "1.5"]).to_string(), "3".to_string(), None)
        }
        2 => (a.to_string(), a.to_string(), Some(vec![])),
        _ => {
            let b = a + t.below(40) as i64;
            (a.to_string(), b.to_string(), Some((a..b).map(|x| x.to_string()).collect()))
        }
    };
    let r = exec(&mut ctx, "range", &[sa.clone(), sb.clone()]);
    match want {
        None => {
            if is_err(&r) {
                Verdict::Pass(Some(fp(&(sa, sb))))
            } else {
                fail("C16/range/out-of-domain-accepted", json!({"args": [sa, sb], "got": show(&r)}))
            }
        }
        Some(w) => {
            let h = match val(&r) {
                Some(Some(h)) => h,
                _ => return fail("C16/range/wrong-value", json!({"args": [sa, sb], "got": show(&r)})),
            };
            match read_array(&mut ctx, &h) {
                Some(v) if v == w => Verdict::Pass(Some(fp(&(sa, sb)))),
                other => fail("C16/range/wrong-interval", json!({"args": [sa, sb], "expected": w, "got": other})),
            }
        }
    }
}


/// (kept-results) several split / range calls in ONE run, writing to a small pool of output variables: the arrays of
/// earlier calls, kept under another variable, must still hold what those calls computed when the run is over.
fn case_kept(t: &mut Tape, st: &mut Stats) -> Verdict {
    use crate::hz::*;
    let n = 2 + t.below(4);
    let mut script = String::new();
    let mut side: Vec<String> = vec![];
    let mut want: Vec<Vec<String>> = vec![];
    let mut outs: Vec<&str> = vec![];
    for j in 0..n {
        let out = *t.pick_ref(&["out", "out", "res"]);
        if outs.contains(&out) {
            st.class("output-variable-holds-an-earlier-result");
        }
        outs.push(out);
        if t.chance(2, 3) {
            let s = text(t, 8);
            let mut needle = if t.flip() && !s.is_empty() {
                let chars: Vec<(usize, char)> = s.char_indices().collect();
                let a = t.below(chars.len());
                s[chars[a].0..chars[a].0 + chars[a].1.len_utf8()].to_string()
            } else {
                text(t, 2)
            };
            if needle.is_empty() {
                needle = ",".to_string();
            }
            script.push_str(&format!("s{} = put {}\nn{} = put {}\n{} = split ${{s{}}} ${{n{}}}\n", j, side.len(), j, side.len() + 1, out, j, j));
            want.push(naive_split(&s, &needle));
            side.push(s);
            side.push(needle);
        } else {
            let a = t.range(-20, 20);
            let b = a + t.below(12) as i64;
            script.push_str(&format!("{} = range {} {}\n", out, a, b));
            want.push((a..b).map(|x| x.to_string()).collect());
        }
        script.push_str(&format!("k{} = set ${{{}}}\n", j, out));
    }
    hz_reset();
    with_hz(|h| h.side = side.clone());
    let o = run_text(&script, sdk_context(), 20_000, None);
    let mut ctx = match o.result {
        Ok(c) => c,
        Err(e) => return fail("C16/kept/run-error", json!({"script": script, "values": side, "error": format!("{:?}", e)})),
    };
    for j in 0..n {
        let h = ctx.variables.get(&format!("k{}", j)).cloned().unwrap_or_default();
        let got = read_array(&mut ctx, &h);
        if got.as_ref() != Some(&want[j]) {
            return fail("C16/kept/earlier-result-changed", json!({"script": script, "values": side, "call": j, "expected_elements": want[j], "elements_at_the_end_of_the_run": got}));
        }
    }
    if st.want_sample() {
        let sc = script.clone();
        st.sample(|| json!({"script": sc}));
    }
    Verdict::Pass(Some(fp(&(&script, &side))))
}

pub fn property() -> Property {
    Property {
        id: "C16",
        rule: "(substring-grid) EXHAUSTIVE: 12 strings of <= 6 bytes incl. 2-, 3- and 4-byte characters and combining marks x all forms (no index, one index, two indexes) x every index (pair) in [-len-2, len+2] plus non-numeric indexes; in-range requests on character boundaries must return the slice, out-of-domain requests the error result; (strings) random texts over ASCII/multi-byte alphabets (one in a hundred and fifty 16..200 KiB long) with needles drawn as real substrings, longer than the haystack, unrelated or empty: length/indexof/last_indexof/contains/starts_with/ends_with/equals/is_empty/concat/replace/split/trim*/uppercase/lowercase against byte-level naive references, plus the relations substring(s,0,indexof(s,t))+t is a prefix of s, length of a slice, split joined by the separator gives s; (numbers) less_than/greater_than on exactly known decimal values in several spellings incl. pairs differing in the last digit, pairs of tiny magnitude (down to 1e-22, differing by as little as 1e-22) and non-numeric operands; (calc) expression trees over + - * with parentheses, exact integer division, dyadic decimals and products of large powers of two (results up to 2^120) compared exactly, one case in six right after a calc call that failed; (range) half-open interval, start>end and non-numeric rejected; (kept-results) 2..5 split / range calls in one script run writing to a pool of two output variables, each result kept under a further variable: at the end of the run every kept array still holds the pieces / interval of its own call. Non-trivial: multi-byte text or non-empty needle / index within the grid; distinct by arguments",
        assumptions: &[
            "substring with an end index equal to the length (and a start index equal to the length in the one-index form) is left unconstrained",
            "values are free of '$', '%' and backslash; calc expressions avoid inexact division, overflow and mixed int/float division",
        ],
        sections: vec![
            Section { name: "substring-grid", plan: |_| Plan::Exhaustive { count: grid_count() }, case: case_grid, min_classes: &[("substring-multibyte", 1000), ("substring-out-of-domain-rejected", 1000)] },
            Section {
                name: "strings",
                plan: |t| match t {
                    Tier::Quick => Plan::Random { cases: 150_000, max_len: 60 },
                    Tier::Thorough => Plan::Random { cases: 12_000_000, max_len: 80 },
                },
                case: case_strings,
                min_classes: &[("multibyte-haystack", 10000), ("needle-longer-than-haystack", 1000), ("prefix-relation-checked", 2000), ("split-join-relation-checked", 2000), ("text-of-16-to-200-KiB", 500), ("substring-index-at-an-integer-limit", 2000)],
            },
            Section {
                name: "numbers",
                plan: |t| match t {
                    Tier::Quick => Plan::Random { cases: 100_000, max_len: 20 },
                    Tier::Thorough => Plan::Random { cases: 8_000_000, max_len: 20 },
                },
                case: case_numbers,
                min_classes: &[("operands-differ-in-last-digit", 10000), ("non-numeric-operand", 1000), ("operands-of-tiny-magnitude", 10000), ("zero-against-zero-or-one", 2000), ("adjacent-doubles", 3000)],
            },
            Section {
                name: "calc",
                plan: |t| match t {
                    Tier::Quick => Plan::Random { cases: 60_000, max_len: 60 },
                    Tier::Thorough => Plan::Random { cases: 4_000_000, max_len: 60 },
                },
                case: case_calc,
                min_classes: &[("exact-integer-division", 2000), ("decimal-operands", 5000), ("result-of-large-magnitude", 3000)],
            },
            Section {
                name: "kept-results",
                plan: |t| match t {
                    Tier::Quick => Plan::Random { cases: 30_000, max_len: 120 },
                    Tier::Thorough => Plan::Random { cases: 1_500_000, max_len: 120 },
                },
                case: case_kept,
                min_classes: &[("output-variable-holds-an-earlier-result", 10000)],
            },
            Section {
                name: "range",
                plan: |t| match t {
                    Tier::Quick => Plan::Random { cases: 20_000, max_len: 10 },
                    Tier::Thorough => Plan::Random { cases: 800_000, max_len: 10 },
                },
                case: case_range,
                min_classes: &[("range-start-after-end", 500), ("range-non-numeric", 500)],
            },
        ],
        probes: vec![],
    }
}
