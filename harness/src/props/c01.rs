//! C01 — a line written with the documented syntax parses back to the same instruction.

use crate::engine::*;
use crate::gen::*;
use duckscript::parser;
use duckscript::types::instruction::{Instruction, InstructionType};
use serde_json::json;

pub fn compare(ins: &Ins, got: &Instruction, line_no: usize) -> Result<(), String> {
    if got.meta_info.line != Some(line_no) {
        return Err(format!("line number {:?}, expected {}", got.meta_info.line, line_no));
    }
    if got.meta_info.source.is_some() {
        return Err(format!("unexpected source {:?}", got.meta_info.source));
    }
    match &got.instruction_type {
        InstructionType::Empty => {
            if ins.is_empty() {
                Ok(())
            } else {
                Err("parsed as Empty".to_string())
            }
        }
        InstructionType::PreProcess(_) => Err("parsed as PreProcess".to_string()),
        InstructionType::Script(s) => {
            if ins.is_empty() {
                return Err(format!("empty line parsed as {:?}", s));
            }
            let want_label = ins.label.as_ref().map(|l| format!(":{}", l));
            if s.label != want_label {
                return Err(format!("label {:?}, expected {:?}", s.label, want_label));
            }
            if s.output != ins.output {
                return Err(format!("output {:?}, expected {:?}", s.output, ins.output));
            }
            if s.command != ins.command {
                return Err(format!("command {:?}, expected {:?}", s.command, ins.command));
            }
            let got_args = s.arguments.clone().unwrap_or_default();
            if got_args != ins.args {
                return Err(format!("arguments {:?}, expected {:?}", got_args, ins.args));
            }
            Ok(())
        }
    }
}

fn sig_for(ins: &Ins, msg: &str) -> String {
    let what = msg.split(' ').next().unwrap_or("mismatch");
    let shape = format!(
        "{}{}{}",
        if ins.label.is_some() { "L" } else { "-" },
        if ins.output.is_some() { "O" } else { "-" },
        if ins.command.is_some() { "C" } else { "-" }
    );
    format!("C01/{}/{}", what, shape)
}

fn case_line(t: &mut Tape, st: &mut Stats) -> Verdict {
    let mut ins = gen_ins(t, 5, 8);
    if ins.command.is_some() && t.chance(1, 60) {
        if t.flip() {
            // many arguments
            let n = 100 + t.below(400);
            for _ in 0..n {
                ins.args.push(hazard_string(t, 2));
            }
            st.class("line-with-100-or-more-arguments");
        } else {
            // one long argument (4..70 KiB)
            let mut unit = hazard_string(t, 4);
            if unit.is_empty() {
                unit = "long ".to_string();
            }
            let span = if t.chance(1, 4) { 66_000 } else { 5_000 };
            let target = 4_000 + t.below(span);
            let mut a = String::with_capacity(target + unit.len());
            while a.len() < target {
                a.push_str(&unit);
            }
            ins.args.push(a);
            st.class("argument-longer-than-4096-bytes");
        }
    }
    let mut info = RenderInfo::default();
    let mut text = render_line(&ins, t, &mut info);
    let term = t.below(3);
    if term == 1 || text.is_empty() {
        text.push('\n');
    } else if term == 2 {
        text.push_str("\r\n");
        st.class("crlf");
    }
    count_class(st, &info);
    if ins.label.is_some() && ins.output.is_none() && ins.command.is_none() {
        st.class("label-only");
    }
    if ins.output.is_some() && ins.command.is_none() {
        st.class("output-without-command");
    }
    if st.want_sample() && info.quoted_or_escaped {
        let tx = text.clone();
        let i2 = ins.clone();
        st.sample(|| json!({"line": tx, "instruction": format!("{:?}", i2)}));
    }
    // a parse does not depend on what was parsed before it in the same process: one case in eight first has a
    // malformed text refused (a C08 kind) on this thread
    if t.chance(1, 8) {
        let (bad, _, _) = crate::props::c08::malformed_line(t);
        if !bad.contains("!include_files") && parser::parse_text(&bad).is_err() {
            st.class("parsed-right-after-a-refused-text");
        }
    }
    // ... nor on what a script that ran earlier on this thread spread-bound: one case in eight of the lines holding a
    // backslash first has variables spread (`%{v}`) that hold the very argument text of this line
    if text.contains('\\') && t.chance(1, 8) {
        crate::hz::spread_tails_on_this_thread(&text);
        st.class("parsed-after-a-spread-of-the-same-argument-text");
    }
    let parsed = parser::parse_text(&text);
    let r = match parsed {
        Err(e) => Err(format!("error {:?}", e)),
        Ok(v) => {
            if v.len() != 1 {
                Err(format!("count {} instructions for one line", v.len()))
            } else {
                compare(&ins, &v[0], 1)
            }
        }
    };
    match r {
        Ok(()) => {
            let nt = info.quoted_or_escaped || info.comment || info.noncanonical_spacing;
            Verdict::Pass(if nt { Some(fp(&(&ins, &text))) } else { None })
        }
        Err(msg) => fail(&sig_for(&ins, &msg), json!({"line": text, "expected": format!("{:?}", ins), "mismatch": msg})),
    }
}

fn case_script(t: &mut Tape, st: &mut Stats) -> Verdict {
    let big = t.chance(1, 10);
    let n = if big { 40 + t.below(80) } else { t.len(40) };
    let mut lines = vec![];
    let mut text = String::new();
    let crlf = t.chance(1, 4);
    let mut nt = false;
    for i in 0..n {
        let ins = if t.chance(1, 5) { Ins::default() } else { gen_ins(t, 3, 5) };
        let mut info = RenderInfo::default();
        let l = render_line(&ins, t, &mut info);
        nt |= info.quoted_or_escaped || info.comment;
        let last = i + 1 == n;
        text.push_str(&l);
        if !last || l.is_empty() || t.flip() {
            text.push_str(if crlf { "\r\n" } else { "\n" });
        }
        lines.push(ins);
    }
    if n == 0 {
        st.class("empty-script");
    }
    if n > 50 {
        st.class("over-50-lines");
    }
    if crlf {
        st.class("crlf");
    }
    let parsed = parser::parse_text(&text);
    let r = match parsed {
        Err(e) => Err((0, format!("error {:?}", e))),
        Ok(v) => {
            if v.len() != n {
                Err((0, format!("count {} instructions for {} lines", v.len(), n)))
            } else {
                let mut r = Ok(());
                for (i, ins) in lines.iter().enumerate() {
                    if let Err(m) = compare(ins, &v[i], i + 1) {
                        r = Err((i, m));
                        break;
                    }
                }
                r
            }
        }
    };
    match r {
        Ok(()) => Verdict::Pass(if nt && n >= 2 { Some(fp(&text)) } else { None }),
        Err((i, msg)) => {
            let ins = lines.get(i).cloned().unwrap_or_default();
            fail(
                &format!("{}/script", sig_for(&ins, &msg)),
                json!({"script": text, "line_index": i, "expected": format!("{:?}", ins), "mismatch": msg}),
            )
        }
    }
}

pub fn property() -> Property {
    Property {
        id: "C01",
        rule: "instructions (label?/output?/command?/args over hazard-biased arbitrary Unicode) (one line in sixty with 100..500 arguments or an argument of 4..70 KiB) rendered with random documented-syntax choices and parsed back (one case in eight right after a malformed text was refused on the same thread); a case is non-trivial when at least one argument needed quotes or an escape, or the line has a comment or non-canonical spacing; distinct by (instruction, rendered text) hash",
        assumptions: &[
            "names (label/output/command) are free of whitespace, control characters, '#', '\\', '\"'; output/command free of '='; first token does not start with '!' or (without label) ':'",
            "undocumented spellings accepted by the parser are not emitted",
        ],
        sections: vec![
            Section {
                name: "lines",
                plan: |t| match t {
                    Tier::Quick => Plan::Random { cases: 200_000, max_len: 160 },
                    Tier::Thorough => Plan::Random { cases: 20_000_000, max_len: 400 },
                },
                case: case_line,
                min_classes: &[("escape-before-closing-quote", 500), ("hash-inside-quotes", 500), ("eq-leading-first-arg", 100), ("crlf", 1000), ("label-only", 500), ("output-without-command", 500), ("parsed-right-after-a-refused-text", 10000), ("line-with-100-or-more-arguments", 500), ("argument-longer-than-4096-bytes", 500)],
            },
            Section {
                name: "scripts",
                plan: |t| match t {
                    Tier::Quick => Plan::Random { cases: 5_000, max_len: 2500 },
                    Tier::Thorough => Plan::Random { cases: 400_000, max_len: 8000 },
                },
                case: case_script,
                min_classes: &[("over-50-lines", 20)],
            },
        ],
        probes: vec![],
    }
}
