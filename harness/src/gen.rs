//! Shared generators: hazard strings, names, instructions and the documented-syntax renderer.

use crate::engine::{Stats, Tape};

pub const PLAIN: &[&str] = &[
    "a", "b", "c", "x", "y", "z", "hello", "world", "foo", "bar", "1", "0", "42", "true", "false", "A", "Z", "_", "-", ".", "/",
];

pub const HAZ: &[&str] = &[
    " ", "\"", "\\", "#", "=", ":", "$", "%", "${x}", "%{x}", "\t", "\n", "\r", "\u{a0}", "\u{2003}", "é", "ß", "日本", "😀", "\0",
    "\u{1}", "{", "}", "!", "'", "\\n", "\\\"", "  ", "${", "%{", "\\$", "\\${x}", "\u{85}", "\u{2028}", "\u{b}", "\u{c}", "İ", "ǅ",
    "\u{301}", "\u{feff}", "\u{7f}", "`", "|", "&", ";", "(", ")", "*", "?", "[", "]", "<", ">", ",", "~", "^", "@",
];

pub fn any_char(t: &mut Tape) -> char {
    loop {
        let r = t.raw();
        let c = match r % 4 {
            0 => r % 0x80,
            1 => r % 0x800,
            2 => r % 0x10000,
            _ => r % 0x110000,
        };
        if let Some(ch) = char::from_u32(c) {
            return ch;
        }
    }
}

/// Arbitrary Unicode string biased towards syntax hazards. Raw 0 everywhere -> "".
pub fn hazard_string(t: &mut Tape, max_pieces: usize) -> String {
    let n = t.len(max_pieces);
    let mut s = String::new();
    for _ in 0..n {
        match t.weighted(&[5, 6, 1]) {
            0 => s.push_str(t.pick(PLAIN)),
            1 => s.push_str(t.pick(HAZ)),
            _ => s.push(any_char(t)),
        }
    }
    s
}

/// Plain word (never empty).
pub fn plain_word(t: &mut Tape) -> String {
    let n = 1 + t.len(3);
    let mut s = String::new();
    for _ in 0..n {
        s.push_str(t.pick(PLAIN));
    }
    s
}

const NAME_FIRST: &[&str] = &[
    "a", "b", "c", "cmd", "out", "x", "y", "v", "n", "A", "Q", "_", "-", ".", "$", "%", "{", "}", "é", "日", "😀", "'", "1", "9", "(", ")", "*", "/", "[", "~", "${x}",
    "%{y}", "`", "|", ",", ";", "İ", "ß",
];
const NAME_REST: &[&str] = &[
    "a", "b", "c", "d", "x", "y", "0", "1", "_", "-", ".", ":", "::", "$", "%", "{", "}", "é", "日", "😀", "'", "!", "(", ")", "*", "/", "]", "~", "`", "|", ",",
    ";", "?", "&", "<", ">", "@", "^", "+",
];

/// A token usable as label text / output variable / command name.
/// `allow_eq`: '=' may appear (labels only).
pub fn name(t: &mut Tape, allow_eq: bool) -> String {
    let mut s = String::new();
    s.push_str(t.pick(NAME_FIRST));
    let n = t.len(6);
    for _ in 0..n {
        if allow_eq && t.chance(1, 8) {
            s.push('=');
        } else {
            s.push_str(t.pick(NAME_REST));
        }
    }
    s
}

#[derive(Clone, Debug, PartialEq, Eq, Hash, Default)]
pub struct Ins {
    /// label text without the leading ':'
    pub label: Option<String>,
    pub output: Option<String>,
    pub command: Option<String>,
    pub args: Vec<String>,
}

impl Ins {
    pub fn is_empty(&self) -> bool {
        self.label.is_none() && self.output.is_none() && self.command.is_none()
    }
    pub fn cmd(command: &str, args: &[&str]) -> Ins {
        Ins {
            label: None,
            output: None,
            command: Some(command.to_string()),
            args: args.iter().map(|s| s.to_string()).collect(),
        }
    }
    pub fn out_cmd(output: &str, command: &str, args: &[&str]) -> Ins {
        Ins {
            label: None,
            output: Some(output.to_string()),
            command: Some(command.to_string()),
            args: args.iter().map(|s| s.to_string()).collect(),
        }
    }
}

pub fn gen_ins(t: &mut Tape, max_args: usize, max_pieces: usize) -> Ins {
    let mut ins = Ins::default();
    // shape: weights favour full instructions
    let shape = t.weighted(&[6, 2, 1, 1, 1, 1, 1]);
    let (l, o, c) = match shape {
        0 => (false, false, true),
        1 => (false, true, true),
        2 => (true, false, true),
        3 => (true, true, true),
        4 => (true, false, false),
        5 => (false, true, false),
        _ => (true, true, false),
    };
    if l {
        ins.label = Some(name(t, true));
    }
    if o {
        let mut n = name(t, false);
        if !l && n.starts_with(':') {
            n.insert(0, 'o');
        }
        ins.output = Some(n);
    }
    if c {
        let mut cmd = name(t, false);
        if o && t.chance(1, 12) {
            // after `output =` the command token runs to the next space: it may hold an '=' of its own
            let at = t.below(cmd.chars().count() + 1);
            let byte = cmd.char_indices().nth(at).map(|(i, _)| i).unwrap_or(cmd.len());
            cmd.insert(byte, '=');
        }
        ins.command = Some(cmd);
        let n = t.len(max_args);
        for _ in 0..n {
            ins.args.push(hazard_string(t, max_pieces));
        }
    }
    ins
}

fn needs_quotes(arg: &str, first_arg_no_output: bool) -> bool {
    if arg.is_empty() || arg.contains(' ') || arg.contains('#') {
        return true;
    }
    let first = arg.chars().next().unwrap();
    let last = arg.chars().last().unwrap();
    // a leading white-space character other than the space is an ordinary first character of an unquoted argument
    // (only the space separates); a trailing one could be eaten by the trimming of the line, so it is quoted
    if first == ' ' || last.is_whitespace() {
        return true;
    }
    if first_arg_no_output && first == '=' {
        return true;
    }
    false
}

/// Renders one argument with the documented syntax. `quoted` is honoured when quoting is optional;
/// `raw_tab_in_quotes`: write a tab as the character itself (quoted or not) instead of the \\t escape.
pub fn render_arg(arg: &str, want_quotes: bool, first_arg_no_output: bool, raw_tab_in_quotes: bool) -> (String, bool) {
    let quoted = want_quotes || needs_quotes(arg, first_arg_no_output);
    let mut s = String::new();
    if quoted {
        s.push('"');
    }
    for ch in arg.chars() {
        match ch {
            '\\' => s.push_str("\\\\"),
            '"' => s.push_str("\\\""),
            '\n' => s.push_str("\\n"),
            '\r' => s.push_str("\\r"),
            '\t' => {
                // a raw tab is an ordinary character: only the space separates (unquoted, it is never the first or
                // last character of the argument - needs_quotes - so it cannot be taken for line-end whitespace)
                if raw_tab_in_quotes {
                    s.push('\t')
                } else {
                    s.push_str("\\t")
                }
            }
            c => s.push(c),
        }
    }
    if quoted {
        s.push('"');
    }
    (s, quoted)
}

fn spaces(t: &mut Tape, min: usize) -> String {
    let n = min + t.len(3);
    " ".repeat(n)
}

pub fn comment_text(t: &mut Tape) -> String {
    let mut s = hazard_string(t, 6);
    s.retain(|c| c != '\n' && c != '\r');
    s
}

#[derive(Default, Clone, Debug)]
pub struct RenderInfo {
    pub quoted_or_escaped: bool,
    pub comment: bool,
    pub noncanonical_spacing: bool,
    pub escape_before_closing_quote: bool,
    pub hash_in_quotes: bool,
    pub eq_leading_first_arg: bool,
}

/// Renders an instruction as one line (no terminator). All choices are within the documented syntax.
pub fn render_line(ins: &Ins, t: &mut Tape, info: &mut RenderInfo) -> String {
    let mut s = String::new();
    // leading whitespace
    if t.chance(1, 4) {
        let lead = if t.chance(1, 3) { "\t".to_string() } else { spaces(t, 1) };
        s.push_str(&lead);
        info.noncanonical_spacing = true;
    }
    let mut need_sep = false;
    if let Some(l) = &ins.label {
        s.push(':');
        s.push_str(l);
        need_sep = true;
    }
    if let Some(o) = &ins.output {
        if need_sep {
            let sp = spaces(t, 1);
            if sp.len() > 1 {
                info.noncanonical_spacing = true;
            }
            s.push_str(&sp);
        }
        s.push_str(o);
        // before '='
        let style = t.below(4);
        match style {
            0 => {
                s.push_str(" = ");
            }
            1 => {
                s.push('=');
                info.noncanonical_spacing = true;
            }
            2 => {
                s.push_str(" =");
                info.noncanonical_spacing = true;
            }
            _ => {
                s.push_str("= ");
                info.noncanonical_spacing = true;
            }
        }
        if t.chance(1, 6) {
            s.push_str(&spaces(t, 1));
            info.noncanonical_spacing = true;
        }
        need_sep = false;
    }
    if let Some(c) = &ins.command {
        if need_sep {
            let sp = spaces(t, 1);
            if sp.len() > 1 {
                info.noncanonical_spacing = true;
            }
            s.push_str(&sp);
        }
        s.push_str(c);
        for (i, a) in ins.args.iter().enumerate() {
            let sp = spaces(t, 1);
            if sp.len() > 1 {
                info.noncanonical_spacing = true;
            }
            s.push_str(&sp);
            let first_no_out = i == 0 && ins.output.is_none();
            let want = t.chance(1, 3);
            let raw_tab = t.flip();
            let (r, quoted) = render_arg(a, want, first_no_out, raw_tab);
            if quoted || r != *a {
                info.quoted_or_escaped = true;
            }
            if quoted && (a.ends_with('\\') || a.ends_with('"') || a.ends_with('\n') || a.ends_with('\t') || a.ends_with('\r')) {
                info.escape_before_closing_quote = true;
            }
            if quoted && a.contains('#') {
                info.hash_in_quotes = true;
            }
            if first_no_out && a.starts_with('=') {
                info.eq_leading_first_arg = true;
            }
            s.push_str(&r);
        }
    }
    // trailing comment
    if t.chance(1, 5) {
        if !s.trim().is_empty() {
            s.push_str(&spaces(t, 1));
        }
        s.push('#');
        s.push_str(&comment_text(t));
        info.comment = true;
    }
    // trailing whitespace
    if t.chance(1, 5) {
        let tr = if t.chance(1, 3) { "\t".to_string() } else { spaces(t, 1) };
        s.push_str(&tr);
        info.noncanonical_spacing = true;
    }
    s
}

/// Canonical rendering: single spaces, quotes only when needed, no comment.
pub fn render_canonical(ins: &Ins) -> String {
    let mut s = String::new();
    if let Some(l) = &ins.label {
        s.push(':');
        s.push_str(l);
    }
    if let Some(o) = &ins.output {
        if !s.is_empty() {
            s.push(' ');
        }
        s.push_str(o);
        s.push_str(" =");
    }
    if let Some(c) = &ins.command {
        if !s.is_empty() {
            s.push(' ');
        }
        s.push_str(c);
        for (i, a) in ins.args.iter().enumerate() {
            s.push(' ');
            let (r, _) = render_arg(a, false, i == 0 && ins.output.is_none(), false);
            s.push_str(&r);
        }
    }
    s
}

pub fn render_script(lines: &[Ins]) -> String {
    let mut s = String::new();
    for l in lines {
        s.push_str(&render_canonical(l));
        s.push('\n');
    }
    s
}

pub fn count_class(st: &mut Stats, info: &RenderInfo) {
    if info.escape_before_closing_quote {
        st.class("escape-before-closing-quote");
    }
    if info.hash_in_quotes {
        st.class("hash-inside-quotes");
    }
    if info.eq_leading_first_arg {
        st.class("eq-leading-first-arg");
    }
    if info.comment {
        st.class("comment");
    }
    if info.noncanonical_spacing {
        st.class("noncanonical-spacing");
    }
}
