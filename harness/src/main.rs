use dsverif::engine::{self, Tier};
use dsverif::{hz, props};

fn usage() -> ! {
    eprintln!("usage: dsverif check <Cxx> [--tier quick|thorough] [--section name]\n       dsverif replay <file>\n       dsverif list");
    std::process::exit(2)
}

fn main() {
    let args: Vec<String> = std::env::args().collect();
    if args.len() < 2 {
        usage();
    }
    engine::install_panic_hook();
    let code = match args[1].as_str() {
        "list" => {
            for p in props::all() {
                println!("{}", p.id);
            }
            0
        }
        "check" => {
            if args.len() < 3 {
                usage();
            }
            let id = args[2].clone();
            let mut tier = match std::env::var("VERIF_TIER").ok().as_deref() {
                Some("thorough") => Tier::Thorough,
                _ => Tier::Quick,
            };
            let mut only: Option<String> = None;
            let mut i = 3;
            while i < args.len() {
                match args[i].as_str() {
                    "--tier" => {
                        i += 1;
                        tier = match args.get(i).map(|s| s.as_str()) {
                            Some("thorough") => Tier::Thorough,
                            Some("quick") => Tier::Quick,
                            _ => usage(),
                        };
                    }
                    "--section" => {
                        i += 1;
                        only = args.get(i).cloned();
                    }
                    _ => usage(),
                }
                i += 1;
            }
            let seed: u64 = std::env::var("VERIF_SEED").ok().and_then(|s| s.parse::<i64>().ok()).map(|v| v as u64).unwrap_or(1);
            match props::all().into_iter().find(|p| p.id == id) {
                Some(p) => engine::check(&p, tier, seed, only.as_deref()),
                None => {
                    eprintln!("unknown property {}", id);
                    2
                }
            }
        }
        "librun" => {
            // internal: dsverif librun <file> - the library run of a script file with the default environment
            // (real stdout), as a process of its own so that children it starts write to the same captured stream
            if args.len() < 3 {
                usage();
            }
            let mut ctx = duckscript::types::runtime::Context::new();
            duckscriptsdk::load(&mut ctx.commands).expect("sdk load");
            match duckscript::runner::run_script_file(&args[2], ctx, None) {
                Ok(_) => std::process::exit(0),
                Err(e) => {
                    println!("Error: {}", e);
                    std::process::exit(1)
                }
            }
        }
        "probe-deep" => {
            // internal: dsverif probe-deep <kind> - known finding C07/stack-overflow-on-very-deep-nesting, run on this
            // process' main thread (default stack) so that the overflow kills only this child
            let kind: usize = args.get(2).and_then(|a| a.parse().ok()).unwrap_or(0);
            let text = if kind == 0 {
                let n = 70000;
                format!("r = not {}true{}\n", "( ".repeat(n), " )".repeat(n))
            } else {
                "h = array leaf\ni = range 0 30000\nfor k in ${i}\n    h = array ${h}\nend\nx = release -r ${h}\n".to_string()
            };
            let mut ctx = duckscript::types::runtime::Context::new();
            duckscriptsdk::load(&mut ctx.commands).expect("sdk load");
            let r = duckscript::runner::run_script(&text, ctx, None);
            println!("returned {}", if r.is_ok() { "Ok" } else { "Err" });
            0
        }
        "probe-cycle" => {
            // internal: dsverif probe-cycle <dir> <len> <style>
            if args.len() < 5 {
                usage();
            }
            props::c07::probe_include_cycle(&args[2], args[3].parse().unwrap_or(1), args[4].parse().unwrap_or(0))
        }
        "shard" => {
            // internal: dsverif shard <prop> <section> <tier> <seed> <shard>
            if args.len() < 7 {
                usage();
            }
            let tier = if args[4] == "thorough" { Tier::Thorough } else { Tier::Quick };
            let seed: u64 = args[5].parse().unwrap_or(1);
            let shard: usize = args[6].parse().unwrap_or(0);
            match props::all().into_iter().find(|p| p.id == args[2]) {
                Some(p) => engine::run_shard_child(&p, &args[3], tier, seed, shard),
                None => 2,
            }
        }
        "replay" => {
            if args.len() < 3 {
                usage();
            }
            let text = std::fs::read_to_string(&args[2]).expect("read replay file");
            let doc: serde_json::Value = serde_json::from_str(&text).expect("replay json");
            let id = doc["property"].as_str().unwrap_or("").to_string();
            let section = doc["section"].as_str().unwrap_or("").to_string();
            let tape: Vec<u32> = doc["tape"].as_array().map(|a| a.iter().map(|v| v.as_u64().unwrap_or(0) as u32).collect()).unwrap_or_default();
            match props::all().into_iter().find(|p| p.id == id) {
                Some(p) => engine::replay(&p, &section, &tape),
                None => {
                    eprintln!("unknown property {}", id);
                    2
                }
            }
        }
        _ => usage(),
    };
    hz::scratch_cleanup();
    std::process::exit(code);
}
