#!/usr/bin/env python3
"""Regenerates MANIFEST.json from the table below (run after adding a property check)."""
import json, subprocess

HOOK_COMMITS = ["8d32335", "db539f0"]

# id -> (technique, level text, level note, design ref)
CHECKS = {
 "C02": ("proptest tape-driven generation of argument templates and variable environments; reference-expander oracle (count, order, text of received arguments); direct run_instruction driver and rendered-text run_script driver",
         "Generated-input search over templates (literal / ${name} / \\${name} / whole-argument %{name}) and environments whose values are arbitrary Unicode biased to syntax look-alikes naming existing variables; the arguments a capturing command receives must equal those of a 40-line reference expander. Exploration level: the space is unbounded, shrinking yields a minimal template+environment.",
         "Trusts the reference expander as the reading of README 'Binding / Spread Binding'; domain restrictions in DESIGN.md C02 (names without openers/backslash, spread words without leading quote or '#').", "DESIGN.md section 3 C02"),
 "C03": ("proptest tape-driven generation of programs over a scripted result-dictating command; model-based oracle (abstract machine transcribed from the statement) comparing call log, on_error log, final variables and Ok/Err(line, source)",
         "Model-based generated search: every result kind, jumps with countdowns, duplicate/undefined labels, out-of-range lines, unknown commands, on_error configurations, text and file mode. Exploration level; shrinking gives minimal programs.",
         "Trusts the 150-line abstract machine; fuel hook turns non-termination into a deterministic mismatch.", "DESIGN.md section 3 C03"),
 "C06": ("exhaustive enumeration of all well-formed condition token sequences up to 11 (quick) / 15 (thorough) tokens plus proptest-generated longer ones; and-of-ors reference evaluator oracle through all four consumers; truthiness table sweep",
         "Exhaustive generated search within the bound (30,541 sequences at 11 tokens, several millions at 15, x 4 consumers) and random search beyond it, against an independent evaluator; truthiness spellings swept through not/if. Exploration level with an exhaustive sub-bound.",
         "Trusts the 40-line reference evaluator and the ASCII-case-insensitive truthiness table; atom values never collide with command names or keywords.", "DESIGN.md section 3 C06"),
 "C08": ("proptest tape-driven arbitrary-text generation (syntax soup, hazard Unicode, long lines) with totality/shape invariants, plus planted single malformed lines in generated well-formed scripts with error-kind/line oracle",
         "Generated-input search: parse_text must return on every text and, when it accepts, yield one instruction per line with 1-based numbers; each documented malformation planted at a random line must be rejected with the matching kind and line, and the script must parse once that line is blanked. Exploration level.",
         "Own line splitter; blank asserted only for space/tab/# lines; '!' lines excluded from the shape check.", "DESIGN.md section 3 C08"),
 "C04": ("proptest tape-driven generation of well-nested structured programs (AST) rendered with random keyword spellings; model-based oracle: tree-walking reference interpreter; emit trace + final variables compared",
         "Model-based generated search over nesting depth, zero-iteration loops, empty bodies, re-entered blocks, every alias/canonical spelling of each keyword and all four condition forms. Exploration level; fuel and nesting-limit hooks make non-termination a deterministic mismatch; shrinking yields small programs.",
         "Trusts the reference interpreter (flow.rs) and the shared tick/tock automata; spelling table cross-checked against the live registry at start-up.", "DESIGN.md section 3 C04"),
 "C05": ("proptest tape-driven generation of programs with function definitions/calls (statement, output-assigning, condition position, recursion, early returns); model-based oracle: reference interpreter with call frames and scoped isolation",
         "Model-based generated search; the corners the property leaves open are detected dynamically by the model (taint) and such programs are discarded and counted. Exploration level.",
         "Trusts the reference interpreter's call semantics as transcribed from the statement; discards are reported per reason in the evidence.", "DESIGN.md section 3 C05"),
 "C09": ("exhaustive grid (feature value x wrapper x position x predicate) plus proptest-generated compositions; differential/metamorphic oracle: wrapped invocation vs direct invocation of the same command",
         "Differential generated search: the argument vector received under not/if/elseif/while/alias must equal the direct call's, and the branch/output must follow the direct output. Known value classes (KNOWN_FINDINGS.txt, F11) are excluded by predicate, counted, and re-confirmed by probes; everything else is strict. Exploration level.",
         "Direct call is the reference (its own correctness is C02); class predicates listed in DESIGN.md C09.", "DESIGN.md section 3 C09"),
 "C15": ("exhaustive enumeration of all set/remove histories up to length 4 (quick) / 5 (thorough) over a 3-name universe with full-universe probes after every step; proptest-generated longer API histories and script-level histories; model-based oracle (name table + alias table)",
         "Exhaustive within the bound, random beyond; after every step return value, get/exists/get_for_use over the universe, get_all_command_names and the no-dangling-alias invariant are compared with the model; script-level alias/unalias/remove_command/is_command_defined/fn/invocation sequences compared with the same model seeded from the live registry. Exploration level with exhaustive sub-bound.",
         "Trusts the 40-line registry model; unalias modelled from its help text.", "DESIGN.md section 3 C15"),
 "C10": ("proptest tape-driven generation of structured programs with planted failing commands (trigger_error, library errors, exit_on_error toggles), text/file/included-file modes; model-based oracle (reference interpreter with error protocol) + differential reference for library messages",
         "Model-based generated search: after every failing line the last-error message/line/source reads and the 'false' output are compared through an emit; fatal mode compares Err(message, line, source). Exploration level.",
         "Library error messages are taken from a direct call of the same command; failing commands never sit in condition position.", "DESIGN.md section 3 C10"),
 "C11": ("proptest tape-driven generation of operation histories over variable and scope-stack commands, one run_instruction per step on a persistent context; model-based oracle HashMap + Vec<HashMap>, compared after every step",
         "Model-based stateful generated search (histories as vec(op) + interpreter): command result and the whole variable map compared after each step. Exploration level.",
         "Values free of $ % and backslash; unconstrained corner (undefined name in pop --copy) synchronised from the implementation.", "DESIGN.md section 3 C11"),
 "C12": ("proptest tape-driven generation of collection-command histories over mixed live/released/unknown/wrong-kind handles; model-based oracle Vec/BTreeMap/BTreeSet per live handle with full re-read audits",
         "Model-based stateful generated search: per-step outputs, 'error or false and nothing changes' for rejected operations, full audit of every live collection through the public commands, recursive release modelled, handle distinctness. Exploration level.",
         "array_join separators from a pool outside the C09 known classes; rejected operations only need to be error/false.", "DESIGN.md section 3 C12"),
 "C16": ("exhaustive substring index grid over multi-byte strings plus proptest-generated texts, numbers, calc expression trees and ranges; reference-implementation oracles (byte-level naive search/split/replace/trim, exact decimal comparison, exact expression evaluation) and unit-consistency relations",
         "Exhaustive within the substring grid, random elsewhere; outputs compared with independent naive references and metamorphic relations (prefix relation, slice length, split/join). Exploration level.",
         "End index == length left unconstrained; uppercase/lowercase compared with Rust's Unicode mappings.", "DESIGN.md section 3 C16"),
 "C17": ("proptest tape-driven generation of texts, integers, JSON documents (grammar) and maps; round-trip oracles plus independent base64/hex reference encoders and a JSON normaliser",
         "Round-trip generated search: bytes/base64/hex/JSON-collections/properties; handle table size restored after release. One known dependency defect (control characters in properties) is excluded by predicate and re-met every run. Exploration level.",
         "JSON numbers in serde_json canonical spelling; root-level null and handle-like strings not generated.", "DESIGN.md section 3 C17"),
 "C07": ("proptest tape-driven generation of command sequences (typed argument pools derived from each command's help usage line + untyped pool, chained outputs, cyclic collections) and token-soup texts, run in ISOLATED child processes; validity-predicate oracle (returns Ok/Err, no panic, no abort, finishes within deterministic fuel); include-cycle probe in a child process",
         "Generated-input search over every registered SDK name with hazard arguments; a panic is caught with its location, an abort or stack overflow kills only the shard process and is attributed to the case it was running, fuel exhaustion is the does-not-finish verdict because no generated line is a loop construct. Exploration level: absence is not proved.",
         "File/process/network/environment-mutating commands and the internal:: family are removed before anything runs (safety of the root-run checker and the property's stated exclusions); resource-proportional requests are bounded.", "DESIGN.md section 3 C07"),
 "C13": ("proptest tape-driven programs (scripted result commands, structured loops, non-terminating wrappers) with the halt flag raised at EVERY invocation boundary of small runs (sampled for large) from inside, and from a helper thread at random instants; metamorphic oracle: halted run = un-halted run cut at the halting point, variables = snapshot at that point",
         "Differential/metamorphic generated search over all raise points incl. jumping, failing and error-handling instructions, with and without the embedder keeping a clone of the flag; the second-thread schedule is sampled, not owned. Exploration level.",
         "Reference = same program without halt (fuel-cut when non-terminating); late helper threads make a case inconclusive, never a violation.", "DESIGN.md section 3 C13"),
 "C14": ("proptest tape-driven generation of acyclic include trees written to a tmpfs scratch directory (nested dirs, relative/absolute/.. paths, names with spaces/non-ASCII, multi-file and repeated includes, planted faults); differential oracle included-vs-pasted (own inliner) at parse level, provenance, behaviour and error position",
         "Differential generated search: parse_file(root) vs parse_text(paste(root)) instruction by instruction, meta_info of every instruction, run traces/variables/outcome, missing-file and malformed-line errors with file and line, run-time error provenance. Exploration level.",
         "Paths compared after canonicalisation; cyclic trees belong to C07.", "DESIGN.md section 3 C14"),
 "C18": ("proptest tape-driven generation of file-operation histories confined to a per-case tmpfs scratch directory; model-based oracle (reference file tree) with the real directory walked and compared after every step",
         "Model-based stateful generated search over write/append/read/binary/touch/mkdir/cp/mv/rm/rmdir/queries/listing/path functions incl. wrong-kind and missing paths; a failing operation must leave the tree unchanged. Exploration level.",
         "Only absolute paths below the scratch directory are ever passed (hard assertion); documented-open corners are not generated (listed in the evidence assumptions).", "DESIGN.md section 3 C18"),
 "C19": ("proptest tape-driven generation of invocations of every script-implemented command (list cross-checked against /repo) in nested contexts with odd caller variable names; invariant oracle over snapshots taken right before and after every invocation (variables, scope:: leftovers, handle-table size, no leak crash)",
         "Invariant-based generated search: caller variables unchanged except output/documented effect, no internal variable left, handle table grows only by a returned collection, no 'Memory leak detected' crash - at top level, in functions, loops, conditions, repeated. Exploration level.",
         "Argument values outside the C09 known classes; file-touching script commands get scratch paths only.", "DESIGN.md section 3 C19"),
 "C20": ("proptest tape-driven generation of deterministic scripts and lint files; differential oracle: the real duck binary (built from /repo by check.sh) vs the library run in process, plus an independent lower-case predicate for lint",
         "Differential generated search over run forms (file, -e, --eval), endings (success, crash, exit codes incl. multiples of 256, parse error, fatal error), lint spellings and info flags: exit status, 'Error:' message and printed output must be what the library decided. Exploration level.",
         "duck built with hooks off; REPL and title-case letters not generated.", "DESIGN.md section 3 C20"),
 "C01": ("proptest tape-driven generation of instructions + documented-syntax renderer; round-trip oracle render->parse_text",
         "Generated-input search: random instructions over hazard-biased arbitrary Unicode are rendered with random documented-syntax choices and must parse back to exactly the generated instruction (and n lines to n instructions with line numbers). Failures shrink to a minimal tape and replay file. Right level because the property is a round trip over an unbounded input space; absence is not proved.",
         "Trusts the 80-line renderer as a faithful reading of the README syntax; names restricted as listed in DESIGN.md C01.", "DESIGN.md section 3 C01"),
}

PENDING_REASON = "check not built yet in this session (planned: see DESIGN.md section 3); not claimed until its machinery exists"

def main():
    props=[json.loads(l)["id"] for l in open("/verif/properties.jsonl")]
    checks=[]
    for pid in props:
        if pid not in CHECKS: continue
        tech, text, note, ref = CHECKS[pid]
        checks.append({
            "property_id": pid,
            "quick_cmd": f"./check.sh {pid} quick",
            "thorough_cmd": f"./check.sh {pid} thorough",
            "evidence_file": f"/verif/evidence/{pid}.json",
            "replay_cmd_template": "./harness/target/debug/dsverif replay {path}",
            "engine": "dsverif",
            "level_claimed": {"category": "exploration", "text": text, "design_ref": ref},
            "level_note": note,
            "technique": tech,
        })
    m={
        "version": 1,
        "setup_cmd": "./setup.sh",
        "hooks": {
            "guard": "--cfg duckscript_verif",
            "enable": "harness/.cargo/config.toml sets rustflags = [\"--cfg\", \"duckscript_verif\"]; the harness has path dependencies on /repo/duckscript and /repo/duckscript_sdk, so every check rebuilds /repo's working tree with the guard on",
            "baseline_off_cmd": "/verif/baseline_check.sh",
            "source_commits": HOOK_COMMITS,
            "add_only": True,
        },
        "engines": [{
            "name": "dsverif",
            "path": "/verif/harness",
            "serves_properties": [c["property_id"] for c in checks],
            "kind_free_text": "Rust binary: choice-tape generators driven by proptest (seeded ChaCha, 16 shards, shrinking to minimal tape), exhaustive enumeration of small finite domains, reference models / round trips / differentials as oracles, known-findings file, evidence writer",
        }],
        "checks": checks,
        "not_applicable": [{"property_id": p, "reason": PENDING_REASON} for p in props if p not in CHECKS],
        "notes": "exit codes: 0 held, 1 VIOLATION, 2 inconclusive. Known findings: /verif/KNOWN_FINDINGS.txt. Replays: /verif/replays. Seeded breaking changes used to test the checks: /verif/seeded.",
    }
    json.dump(m, open("/verif/MANIFEST.json","w"), indent=1)
    import jsonschema
    jsonschema.validate(m, json.load(open("/root/.vp/MANIFEST.schema.json")))
    print("MANIFEST.json written:", len(checks), "checks;", len(m["not_applicable"]), "not claimed")

main()
