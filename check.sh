#!/bin/bash
# usage: check.sh <Cxx> <quick|thorough>   (VERIF_SEED honoured)
# Rebuilds the harness against /repo's current working tree (hooks on: --cfg duckscript_verif, see
# harness/.cargo/config.toml) and runs one property check.
# exit 0 = held, 1 = VIOLATION line printed, 2 = inconclusive (build failure, harness error, watchdog)
id="$1"; tier="${2:-${VERIF_TIER:-quick}}"
here="$(cd "$(dirname "$0")" && pwd)"
export VERIF_DIR="$here"
export CARGO_NET_OFFLINE=true
cd "$here/harness" || exit 2
log="$(mktemp)"
if ! cargo build --offline >"$log" 2>&1; then
  echo "INCONCLUSIVE property=$id: harness build failed against the current /repo tree"
  tail -40 "$log"; rm -f "$log"; exit 2
fi
rm -f "$log"
# watchdog: a hang inside native code is reported as inconclusive, never as a violation
limit=${VERIF_WATCHDOG_S:-$([ "$tier" = thorough ] && echo 14400 || echo 1500)}
timeout -k 10 "$limit" ./target/debug/dsverif check "$id" --tier "$tier"
rc=$?
if [ $rc -eq 124 ] || [ $rc -eq 137 ]; then echo "INCONCLUSIVE property=$id: watchdog ($limit s)"; exit 2; fi
if [ $rc -gt 2 ]; then echo "INCONCLUSIVE property=$id: checker terminated abnormally (status $rc)"; exit 2; fi
exit $rc
