#!/bin/bash
# usage: check.sh <Cxx> <quick|thorough>   (VERIF_SEED honoured)
# Rebuilds the harness against /repo's current working tree (hooks on: --cfg duckscript_verif, see
# harness/.cargo/config.toml) and runs one property check.
# exit 0 = held, 1 = VIOLATION line printed, 2 = inconclusive (build failure, harness error, watchdog)
id="$1"; tier="${2:-${VERIF_TIER:-quick}}"
here="$(cd "$(dirname "$0")" && pwd)"
export VERIF_DIR="$here"
export CARGO_NET_OFFLINE=true
cd "$here/harness" || exit 2
log="$(mktemp)"
if ! cargo build --offline >"$log" 2>&1; then
  echo "INCONCLUSIVE property=$id: harness build failed against the current /repo tree"
  tail -40 "$log"; rm -f "$log"; exit 2
fi
rm -f "$log"
if [ "$id" = C20 ]; then
  # C20 compares the library with the real command-line tool: build it from /repo's working tree (hooks off)
  log="$(mktemp)"
  if ! env -u RUSTFLAGS cargo build --offline --manifest-path /repo/Cargo.toml -p duckscript_cli --target-dir "$here/harness/target/cli" >"$log" 2>&1; then
    echo "INCONCLUSIVE property=$id: building the duck binary from /repo failed"
    tail -40 "$log"; rm -f "$log"; exit 2
  fi
  rm -f "$log"
fi
# watchdog: a hang inside native code is reported as inconclusive, never as a violation
limit=${VERIF_WATCHDOG_S:-$([ "$tier" = thorough ] && echo 14400 || echo 1500)}
timeout -k 10 "$limit" ./target/debug/dsverif check "$id" --tier "$tier"
rc=$?
if [ $rc -eq 124 ] || [ $rc -eq 137 ]; then echo "INCONCLUSIVE property=$id: watchdog ($limit s)"; exit 2; fi
if [ $rc -gt 2 ]; then echo "INCONCLUSIVE property=$id: checker terminated abnormally (status $rc)"; exit 2; fi
# thorough tier of the "all inputs" properties: an additional coverage-guided campaign over the same generators and
# oracle (the claim rests on the proptest run above; a campaign that cannot be built or run is reported, not fatal)
if [ $rc -eq 0 ] && [ "$tier" = thorough ] && [ -z "$VERIF_NO_LIBFUZZER" ]; then
  case "$id" in
    C01) camp="lines scripts" ;;
    C02) camp="direct text" ;;
    C08) camp="text planted" ;;
    *) camp="" ;;
  esac
  for sec in $camp; do
    "$here/fuzz.sh" "$id" "$sec" "${VERIF_FUZZ_SECONDS:-120}"
    frc=$?
    if [ $frc -eq 1 ]; then exit 1; fi
    if [ $frc -ne 0 ]; then echo "NOTE property=$id: libFuzzer campaign for section $sec was inconclusive (proptest result stands)"; fi
  done
fi
exit $rc
