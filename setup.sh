#!/bin/bash
# Builds the harness offline from files on disk only.
here="$(cd "$(dirname "$0")" && pwd)"
export CARGO_NET_OFFLINE=true
cd "$here/harness" && cargo build --offline 2>&1 | tail -3
