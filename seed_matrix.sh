#!/bin/bash
# Runs every confirmed seeded breaking change against the quick check of the property it targets and records the
# outcome in its meta.json (caught_by) and in seeded/MATRIX.txt. Applies each patch to /repo and reverts it.
cd /verif || exit 2
# MATRIX_ONLY=<regex>: run only the matching changes and replace just their lines
if [ -z "$MATRIX_ONLY" ]; then : > seeded/MATRIX.txt; fi
for d in seeded/C*-*/; do
  name=$(basename "$d"); id=${name%-*}
  if [ -n "$MATRIX_ONLY" ]; then echo "$name" | grep -q -E -e "$MATRIX_ONLY" || continue; sed -i "/^$name: /d" seeded/MATRIX.txt; fi
  [ -s "$d/patch.diff" ] || { echo "$name: empty patch" | tee -a seeded/MATRIX.txt; continue; }
  out=$(./seedtest.sh "/verif/$d/patch.diff" "$id" 2>&1)
  rc=$(echo "$out" | sed -n 's/^check exit=//p' | tail -1)
  sig=$(echo "$out" | sed -n 's/^  section=\(.*\)/\1/p' | head -1)
  case "$rc" in
    1) verdict="CAUGHT" ;;
    0) verdict="MISSED" ;;
    2) verdict="INCONCLUSIVE" ;;
    *) verdict="NOT-RUN($(echo "$out" | head -1 | cut -c1-80))" ;;
  esac
  echo "$name: $verdict ${sig}" | tee -a seeded/MATRIX.txt
  python3 - "$d/meta.json" "$verdict" "$sig" "$id" <<'PY'
import json,sys
p,verdict,sig,pid=sys.argv[1:]
m=json.load(open(p))
m["caught_by"]={"check":f"./check.sh {pid} quick","verdict":verdict,"first_report":sig}
json.dump(m,open(p,"w"),indent=1,ensure_ascii=False)
PY
done
sort -o seeded/MATRIX.txt seeded/MATRIX.txt
git -C /repo status --short | head -3
