#!/bin/bash
# usage: fuzz.sh <Cxx> <section> <seconds> [seed]
# Coverage-guided campaign with the SAME generators and oracle as the proptest run (harness/fuzz, target fuzz_tape).
# exit 0: no failure; exit 1: VIOLATION line with a replay file; exit 2: inconclusive (build problem, no nightly ...).
id="$1"; section="$2"; secs="${3:-60}"; seed="${4:-${VERIF_SEED:-1}}"
here="$(cd "$(dirname "$0")" && pwd)"
cd "$here/harness/fuzz" || exit 2
export CARGO_NET_OFFLINE=true RUSTFLAGS="--cfg duckscript_verif"
[ -f Cargo.lock ] || cp ../Cargo.lock . 2>/dev/null
log="$(mktemp)"
if ! cargo +nightly fuzz build fuzz_tape >"$log" 2>&1; then
  echo "INCONCLUSIVE property=$id: libFuzzer target could not be built"; tail -5 "$log"; rm -f "$log"; exit 2
fi
corpus="corpus/$id-$section"; mkdir -p "$corpus" "artifacts/$id-$section"
# libFuzzer ramps the input length slowly from an empty corpus: start from a few random full-length tapes
python3 - "$corpus" "$seed" <<'PY'
import os,struct,random,sys
d,seed=sys.argv[1],int(sys.argv[2]); random.seed(seed)
if not os.listdir(d):
    for i in range(8):
        n=random.choice([8,40,120,300])
        open(f"{d}/seed{i}","wb").write(struct.pack("<%dI"%n,*[random.getrandbits(32) for _ in range(n)]))
PY
DSVERIF_PROP="$id" DSVERIF_SECTION="$section" cargo +nightly fuzz run fuzz_tape "$corpus" -- \
  -max_total_time="$secs" -seed="$seed" -len_control=0 -max_len=3200 -artifact_prefix="artifacts/$id-$section/" >"$log" 2>&1
rc=$?
runs=$(grep -E "^Done [0-9]+ runs" "$log" | tail -1 | awk '{print $2}')
echo "[$id] libFuzzer section=$section seconds=$secs runs=${runs:-?} (campaign pinned only approximately by -seed; the saved input is the reproducible unit)"
art=$(ls -t artifacts/$id-$section/crash-* 2>/dev/null | head -1)
if [ $rc -ne 0 ] && [ -n "$art" ]; then
  mkdir -p "$here/replays"
  rp="$here/replays/$id-libfuzzer-$(basename "$art").json"
  python3 tape_to_replay.py "$id" "$section" "$art" > "$rp"
  grep -E "VIOLATION|HARNESS ERROR|panicked" "$log" | head -3
  echo "VIOLATION property=$id replay=$rp"
  rm -f "$log"; exit 1
fi
if [ $rc -ne 0 ]; then echo "INCONCLUSIVE property=$id: libFuzzer ended with status $rc without an artefact"; tail -5 "$log"; rm -f "$log"; exit 2; fi
rm -f "$log"; exit 0
