#!/bin/bash
# copies finished seed-agent deliverables from /tmp/seed/out-C* into /verif/seeded-incoming (kept in git) 
for d in /tmp/seed/out-C*; do
  id=$(basename $d | sed 's/out-//')
  if ls $d/*.patch.diff >/dev/null 2>&1; then mkdir -p /verif/seeded-incoming/$id; cp -u $d/*.patch.diff $d/*.demo.* $d/*.meta.json /verif/seeded-incoming/$id/ 2>/dev/null; fi
done
ls /verif/seeded-incoming
for d in /tmp/seed/out2-C*; do
  id=$(basename $d | sed 's/out2-//')
  if ls $d/*.patch.diff >/dev/null 2>&1; then mkdir -p /verif/seeded-incoming/round2/$id; cp -u $d/*.patch.diff $d/*.demo.* $d/*.meta.json /verif/seeded-incoming/round2/$id/ 2>/dev/null; fi
done
for d in /tmp/seed/out3-C??; do
  id=$(basename $d | sed 's/out3-//')
  if ls $d/*.patch.diff >/dev/null 2>&1; then mkdir -p /verif/seeded-incoming/round3/$id; cp -u $d/*.patch.diff $d/*.demo.* $d/*.meta.json /verif/seeded-incoming/round3/$id/ 2>/dev/null; fi
done
for d in /tmp/seed/out4-C??; do
  id=$(basename $d | sed 's/out4-//')
  if ls $d/*.patch.diff >/dev/null 2>&1; then mkdir -p /verif/seeded-incoming/round4/$id; cp -u $d/*.patch.diff $d/*.demo* $d/*.meta.json /verif/seeded-incoming/round4/$id/ 2>/dev/null; fi
done
for d in /tmp/seed/out5-C??; do
  id=$(basename $d | sed 's/out5-//')
  if ls $d/*.patch.diff >/dev/null 2>&1; then mkdir -p /verif/seeded-incoming/round5/$id; cp -u $d/*.patch.diff $d/*.demo* $d/*.meta.json /verif/seeded-incoming/round5/$id/ 2>/dev/null; fi
done
for d in /tmp/seed/out6-C??; do
  id=$(basename $d | sed 's/out6-//')
  if ls $d/*.patch.diff >/dev/null 2>&1; then mkdir -p /verif/seeded-incoming/round6/$id; cp -u $d/*.patch.diff $d/*.demo* $d/*.meta.json /verif/seeded-incoming/round6/$id/ 2>/dev/null; fi
done
for d in /tmp/seed/out7-C??; do
  id=$(basename $d | sed 's/out7-//')
  if ls $d/*.patch.diff >/dev/null 2>&1; then mkdir -p /verif/seeded-incoming/round7/$id; cp -u $d/*.patch.diff $d/*.demo* $d/*.meta.json /verif/seeded-incoming/round7/$id/ 2>/dev/null; fi
done
for d in /tmp/seed/out8-C??; do
  id=$(basename $d | sed 's/out8-//')
  if ls $d/*.patch.diff >/dev/null 2>&1; then mkdir -p /verif/seeded-incoming/round8/$id; cp -u $d/*.patch.diff $d/*.demo* $d/*.meta.json /verif/seeded-incoming/round8/$id/ 2>/dev/null; fi
done
