#!/bin/bash
# The scratch mutations of DESIGN.md section 3 ("Sens"), applied one at a time to /repo's working tree, checked with
# the quick tier of their property and reverted. Last column: what is expected (CAUGHT / SILENT for negative controls).
# usage: sens.sh [filter]   -> writes seeded/SENS.txt
cd /verif || exit 2
run() { # id file old new expect
  local id="$1" f="$2" old="$3" new="$4" expect="$5"
  [ -n "$FILTER" ] && [[ "$id" != $FILTER ]] && return
  local out rc
  out=$(./mut.sh "$id" "$f" "$old" "$new" 2>&1); 
  if echo "$out" | grep -q "^VIOLATION"; then rc=CAUGHT; elif echo "$out" | grep -q "^OK"; then rc=SILENT; elif echo "$out" | grep -q "pattern not found"; then rc=PATTERN-NOT-FOUND; else rc=INCONCLUSIVE; fi
  local sig=$(echo "$out" | sed -n 's/^  section=//p' | head -1)
  printf '%s | %s | %s -> %s | expected %s | %s %s\n' "$id" "$f" "$(echo "$old" | head -1 | cut -c1-60)" "$(echo "$new" | head -1 | cut -c1-60)" "$expect" "$rc" "$sig" | tee -a seeded/SENS.txt
}
FILTER="$1"; : > seeded/SENS.txt
P=duckscript/src/parser.rs; R=duckscript/src/runner.rs; E=duckscript/src/expansion.rs; K=duckscript/src/types/command.rs
S=duckscript_sdk/src
run C01 $P "                    if character == ' ' || character == '=' {
                        index -= 1;" "                    if character == '=' {
                        index -= 1;" SILENT
run C01 $P "    let mut line_number = 1;" "    let mut line_number = 0;" CAUGHT
run C01 $P "let trimmed_text = line_text.trim();" "let trimmed_text = line_text.trim_matches(' ');" CAUGHT
run C02 $R "ExpandedValue::None => arguments.push(\"\".to_string())," "ExpandedValue::None => ()," CAUGHT
run C02 $E "                value_string.push_str(variable_value)" "                value_string.push_str(variable_value.trim())" CAUGHT
run C03 $R "let post_error_line = line + 1;" "let post_error_line = line;" CAUGHT
run C03 $R "            None => variables.remove(&output_variable.unwrap())," "            None => None," CAUGHT
run C03 $R "                        if exit_code != 0 {" "                        if exit_code == 0 {" CAUGHT
run C04 $S/sdk/std/flowcontrol/while_mod/mod.rs "                let next_line = call_info.meta_info.start;" "                let next_line = call_info.meta_info.start + 1;" CAUGHT
run C04 $S/sdk/std/flowcontrol/forin/mod.rs "                            iteration: iteration + 1," "                            iteration: iteration + 2," CAUGHT
run C05 $S/sdk/std/flowcontrol/function/mod.rs "                    let next_line = call_info.call_line + 1;
                    CommandResult::GoTo(output, GoToValue::Line(next_line))" "                    let next_line = call_info.call_line + 2;
                    CommandResult::GoTo(output, GoToValue::Line(next_line))" CAUGHT
run C05 $S/sdk/std/flowcontrol/function/mod.rs "                            if context.arguments.is_empty() {
                                context.variables.remove(name);" "                            if context.arguments.is_empty() {
                                ();" CAUGHT
run C06 $S/utils/condition.rs "                                    partial_evaluated =
                                        Some(evaluated || partial_evaluated.unwrap_or(false));
                                    found_token = FoundToken::Value;
                                }
                                FoundToken::Value => {
                                    return Err(
                                        format!(\"Unexpected value: {}\", argument).to_string()" "                                    partial_evaluated =
                                        Some(evaluated && partial_evaluated.unwrap_or(false));
                                    found_token = FoundToken::Value;
                                }
                                FoundToken::Value => {
                                    return Err(
                                        format!(\"Unexpected value: {}\", argument).to_string()" CAUGHT
run C06 $S/utils/condition.rs "                            if !total_evaluated.unwrap() {
                                return Ok(false);
                            }" "" SILENT
run C06 $S/utils/condition.rs "let lower_case = value_str.to_lowercase();" "let lower_case = value_str.to_string();" CAUGHT
run C07 $S/sdk/std/random/range/mod.rs "if min >= max {" "if min > max {" CAUGHT
run C07 $S/sdk/std/string/substring/mod.rs "            if start < 0 {
                return CommandResult::Error(\"Start index cannot be negative.\".to_string());
            }" "" CAUGHT
run C08 $P "Err(ScriptError::MissingEndQuotes(meta_info.clone()))" "Ok((index, Some(argument)))" CAUGHT
run C09 $S/utils/eval.rs "        if argument.is_empty() {
            line_buffer.push_str(\"\\\"\\\"\");" "        if argument.is_empty() {
            line_buffer.push_str(\"\");" CAUGHT
run C10 $S/sdk/std/on_error/on_error/mod.rs "sub_state.insert(\"line\".to_string(), StateValue::String(line));" "sub_state.insert(\"line\".to_string(), StateValue::String(format!(\"{}0\", line)));" CAUGHT
run C11 $S/utils/scope.rs "            variables.clear();

            for (key, value) in new_variables {
                variables.insert(key.to_string(), value);
            }

            Ok(())" "            for (key, value) in new_variables {
                variables.insert(key.to_string(), value);
            }

            Ok(())" CAUGHT
run C11 $S/sdk/std/var/unset_all_vars/mod.rs "!key.starts_with(prefix)" "!key.contains(prefix.as_str())" CAUGHT
run C12 $S/sdk/std/collections/array_remove/mod.rs "                if list_length > index {
                    list.remove(index);" "                if list_length >= index {
                    list.remove(index.min(list_length.saturating_sub(1)));" CAUGHT
run C13 $R "        if runtime.env.halt.load(Ordering::SeqCst) {
            end_reason = EndReason::Halted;
            break;
        }" "        if runtime.env.halt.load(Ordering::SeqCst) {
            runtime.context.variables.clear();
            end_reason = EndReason::Halted;
            break;
        }" CAUGHT
run C14 duckscript/src/preprocessor/include_files_preprocessor.rs "                        match path_buffer.parent() {" "                        match std::path::PathBuf::from(\".\").parent().or(path_buffer.parent()) {" CAUGHT
run C15 $K "        for alias in &aliases {
            if self.aliases.contains_key(alias) {" "        self.commands.insert(name.clone(), command.clone());
        for alias in &aliases {
            if self.aliases.contains_key(alias) {" CAUGHT
run C16 $S/sdk/std/string/length/mod.rs "let string_len = context.arguments[0].len();" "let string_len = context.arguments[0].chars().count();" CAUGHT
run C16 $S/sdk/std/collections/range/mod.rs "let array: Vec<_> = (start..end)" "let array: Vec<_> = (start..=end)" CAUGHT
run C17 $S/sdk/std/math/hex_decode/mod.rs "trim_start_matches(\"0x\")" "trim_matches(|c| c == '0' || c == 'x')" CAUGHT
run C17 $S/sdk/std/json/parse/mod.rs "        Value::Null => None,
        Value::Bool(value) => Some(value.to_string())," "        Value::Null => Some(\"null\".to_string()),
        Value::Bool(value) => Some(value.to_string())," CAUGHT
run C18 $S/sdk/std/fs/rm/mod.rs "                } else if recursive {
                    fs::remove_dir_all(&path)
                } else {
                    fs::remove_dir(&path)" "                } else if recursive || true {
                    fs::remove_dir_all(&path)
                } else {
                    fs::remove_dir(&path)" CAUGHT
run C19 $S/types/command.rs "            clear(&self.scope_name, context.variables);" "            clear(\"scope::nothing\", context.variables);" CAUGHT
run C20 duckscript_cli/src/main.rs "            println!(\"Error: {}\", error);
            exit(1);" "            println!(\"Error: {}\", error);
            exit(0);" CAUGHT
git -C /repo status --short | head -2
