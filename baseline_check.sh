#!/bin/bash
# Runs the repository's baseline suite with the verification guard OFF and compares against
# /root/.vp/BASELINE.json stable_pass: exits 0 iff no stable-pass test fails.
cd /repo || exit 2
unset RUSTFLAGS
out=$(mktemp)
if cargo nextest --version >/dev/null 2>&1 && [ -f /w/lib/nextest.toml ]; then
  cargo nextest run --workspace --no-fail-fast --tool-config-file pb:/w/lib/nextest.toml --profile pb --test-threads 8 --offline >"$out" 2>&1
else
  cargo test --workspace --no-fail-fast --offline >"$out" 2>&1
fi
python3 - "$out" <<'PY'
import json,re,sys
sp=set(json.load(open('/root/.vp/BASELINE.json'))['stable_pass'])
fails=set()
summary=""
for l in open(sys.argv[1]):
    m=re.match(r'\s+(FAIL|SIGABRT|SIGSEGV|TIMEOUT)\s+\[.*?\]\s+(?:\(.*?\)\s+)?(\S+)\s+(\S+)',l)
    if m: fails.add(m.group(2)+"::"+m.group(3))
    m=re.match(r'test (\S+) \.\.\. FAILED',l)
    if m: fails.add(m.group(1))
    if 'Summary' in l or ('test result' in l and 'passed' in l and not summary.startswith('     Summary')): summary+=l.strip()+" | "
bad=sorted(f for f in fails if f in sp or any(s.endswith("::"+f) for s in sp))
print(summary)
print("failing tests outside stable_pass:",len(fails)-len(bad))
if bad:
    print("STABLE-PASS TESTS FAILING:",bad); sys.exit(1)
print("baseline OK: all",len(sp),"stable-pass tests unaffected")
PY
rc=$?
rm -f "$out"
exit $rc
